//! Statements, control flow, loops.

use syn::visit::Visit;
use syn::{BinOp, Expr, Pat, Stmt};

use crate::expr::*;
use crate::tr::*;
use crate::types::{IntTy, RTy};
use crate::world::*;

/// What happens when control falls off the end of a statement list.
pub enum Kont<'a> {
    /// the value is the result of the function
    Return,
    /// the value is the value of the enclosing expression (`pure v`)
    Value(Option<RTy>),
    /// continue with these statements (of the block at scope `depth`/`env_len`), then `k`
    Seq { rest: &'a [Stmt], k: &'a Kont<'a>, env_len: usize, depth: usize },
    /// end of a loop body: next iteration
    LoopNext { call: String, state: Vec<String> },
    /// end of a branch of an `if` statement: yield the assigned outer variables
    Yield(Vec<String>),
}

struct ReturnFinder { found: bool }
impl<'ast> Visit<'ast> for ReturnFinder {
    fn visit_expr_return(&mut self, _: &'ast syn::ExprReturn) { self.found = true; }
    fn visit_expr_try(&mut self, _: &'ast syn::ExprTry) { self.found = true; }
    fn visit_expr_closure(&mut self, _: &'ast syn::ExprClosure) {}
    fn visit_item(&mut self, _: &'ast syn::Item) {}
}
pub fn contains_return_expr(e: &Expr) -> bool { let mut f = ReturnFinder { found: false }; f.visit_expr(e); f.found }
pub fn contains_return_stmts(s: &[Stmt]) -> bool { let mut f = ReturnFinder { found: false }; for x in s { f.visit_stmt(x); } f.found }

struct BreakFinder { found: bool }
impl<'ast> Visit<'ast> for BreakFinder {
    fn visit_expr_break(&mut self, _: &'ast syn::ExprBreak) { self.found = true; }
    fn visit_expr_continue(&mut self, _: &'ast syn::ExprContinue) { self.found = true; }
    fn visit_expr_closure(&mut self, _: &'ast syn::ExprClosure) {}
}

/// methods that modify their receiver (a `Vec` / `VecDeque` / `HashMap` field of `&mut self`)
pub const MUTATING_METHODS: &[&str] = &["resize", "clear", "push", "pop", "drain", "truncate", "insert", "remove", "push_back", "push_front", "pop_back", "pop_front"];

/// `self.f` → `f`
pub fn self_field(e: &Expr) -> Option<String> {
    if let Expr::Field(f) = strip_paren(e) {
        if let Expr::Path(p) = strip_paren(&f.base) {
            if p.path.is_ident("self") { if let syn::Member::Named(i) = &f.member { return Some(i.to_string()); } }
        }
    }
    None
}

/// the field of `self` modified by an assignment to `target` (`self.f`, `self.f[i]`)
pub fn mutated_self_field_of_target(target: &Expr) -> Option<String> {
    match strip_paren(target) { Expr::Index(ix) => self_field(&ix.expr), e => self_field(e) }
}

/// names assigned (`x = ..`, `x op= ..`; a mutated field `f` of `self` is the name `self.f`) and names declared by
/// `let` inside
struct AssignFinder {
    assigned: Vec<String>, declared: Vec<String>, inout_fns: Vec<(String, Vec<usize>)>, mut_methods: Vec<(String, Vec<String>)>,
    /// flattened struct locals in scope: (variable, struct)
    flat_locals: Vec<(String, String)>,
    /// translated `&mut self` methods of any type: ((type, method), modified fields)
    all_mut_methods: Vec<((String, String), Vec<String>)>,
    /// methods of the own type with `&mut` struct / list parameters: (method, positions among the explicit arguments)
    inout_methods: Vec<(String, Vec<usize>)>,
}
impl AssignFinder {
    fn target(&mut self, left: &Expr) {
        let n = match path_ident(left) {
            Some(n) => Some(n),
            None => match mutated_self_field_of_target(left) {
                Some(f) => Some(format!("self.{}", f)),
                None => match strip_paren(left) {
                    // `x.f = ..` for a flattened struct local `x`: the variable `x.f`
                    Expr::Field(f) if path_ident(&f.base).map(|b| self.flat_locals.iter().any(|(v, _)| *v == b)).unwrap_or(false) => {
                        match &f.member { syn::Member::Named(i) => Some(format!("{}.{}", path_ident(&f.base).unwrap(), i)), _ => None }
                    }
                    // `x.f = ..` for a local struct value `x`
                    Expr::Field(f) => path_ident(&f.base),
                    // `*x.m(..) = ..` (a place method of the local struct value `x`)
                    Expr::Unary(u) if matches!(u.op, syn::UnOp::Deref(_)) => match strip_paren(&u.expr) { Expr::MethodCall(mc) => path_ident(&mc.receiver), _ => None },
                    _ => None,
                },
            },
        };
        if let Some(n) = n { if !self.assigned.contains(&n) { self.assigned.push(n); } }
    }
}
impl<'ast> Visit<'ast> for AssignFinder {
    fn visit_expr_assign(&mut self, a: &'ast syn::ExprAssign) {
        self.target(&a.left);
        syn::visit::visit_expr_assign(self, a);
    }
    fn visit_expr_binary(&mut self, b: &'ast syn::ExprBinary) {
        if is_compound(&b.op) { self.target(&b.left); }
        syn::visit::visit_expr_binary(self, b);
    }
    fn visit_expr_method_call(&mut self, m: &'ast syn::ExprMethodCall) {
        if MUTATING_METHODS.contains(&m.method.to_string().as_str()) {
            if let Some(f) = self_field(&m.receiver) { let n = format!("self.{}", f); if !self.assigned.contains(&n) { self.assigned.push(n); } }
        }
        // `self.make(mv)`: a translated `&mut self` method of the same type
        if path_ident(&m.receiver).as_deref() == Some("self") {
            if let Some((_, fs)) = self.mut_methods.iter().find(|(n, _)| *n == m.method.to_string()).cloned() {
                for f in fs { let n = format!("self.{}", f); if !self.assigned.contains(&n) { self.assigned.push(n); } }
            }
            // `self.make_move(result, ..)`: a `&mut` struct / list argument is modified
            if let Some((_, pos)) = self.inout_methods.iter().find(|(n, _)| *n == m.method.to_string()).cloned() {
                for i in pos { if let Some(a) = m.args.iter().nth(i) { if let Some(n) = path_ident(a) { if !self.assigned.contains(&n) { self.assigned.push(n); } } } }
            }
        } else if let Some(x) = path_ident(&m.receiver) {
            // `mv.set_x(..)` on a flattened struct local: the fields the method modifies
            if let Some((_, sn)) = self.flat_locals.iter().find(|(v, _)| *v == x).cloned() {
                if let Some((_, fs)) = self.all_mut_methods.iter().find(|((t, n), _)| *t == sn && *n == m.method.to_string()).cloned() {
                    for f in fs { let n = format!("{}.{}", x, f); if !self.assigned.contains(&n) { self.assigned.push(n); } }
                }
            } else if (m.method == "push" || m.method == "push_str" || m.method == "next") && !matches!(strip_paren(&m.receiver), Expr::Field(_)) {
                // `result.push(x)` on a local / parameter list or string, `it.next()` on a local iterator
                if !self.assigned.contains(&x) { self.assigned.push(x); }
            }
        }
        syn::visit::visit_expr_method_call(self, m);
    }
    fn visit_expr_call(&mut self, c: &'ast syn::ExprCall) {
        // `Self::make_castle(active, ..)`: a `&mut` struct argument is modified
        if let Expr::Path(p) = &*c.func {
            if let Some(last) = p.path.segments.last() {
                let name = last.ident.to_string();
                if let Some((_, pos)) = self.inout_fns.iter().find(|(n, _)| *n == name).cloned() {
                    for i in pos { if let Some(a) = c.args.iter().nth(i) { if let Some(n) = path_ident(a) { if !self.assigned.contains(&n) { self.assigned.push(n); } } } }
                }
            }
        }
        syn::visit::visit_expr_call(self, c);
    }
    fn visit_pat_ident(&mut self, p: &'ast syn::PatIdent) { self.declared.push(p.ident.to_string()); }
    fn visit_expr_closure(&mut self, _: &'ast syn::ExprClosure) {}
    fn visit_expr_reference(&mut self, r: &'ast syn::ExprReference) {
        // `&mut x`: the variable may be modified through the reference
        if r.mutability.is_some() { if let Some(n) = path_ident(&r.expr) { if !self.assigned.contains(&n) { self.assigned.push(n); } } }
        syn::visit::visit_expr_reference(self, r);
    }
}

/// does `name` occur as a path in the statements?
struct MentionFinder { names: Vec<String>, found: bool }
impl<'ast> Visit<'ast> for MentionFinder {
    fn visit_expr_path(&mut self, p: &'ast syn::ExprPath) { if self.names.iter().any(|n| p.path.is_ident(n)) { self.found = true; } }
}

/// the side-effecting method call at the head of a method chain (`self.q.pop_front().unwrap()` → `self.q.pop_front()`)
pub fn effect_head(e: &Expr) -> Option<&syn::ExprMethodCall> {
    let mut cur = strip_paren(e);
    loop {
        match cur {
            Expr::MethodCall(mc) => {
                if MUTATING_METHODS.contains(&mc.method.to_string().as_str()) && self_field(&mc.receiver).is_some() { return Some(mc); }
                // `chars.next()` on a local iterator
                if mc.method == "next" && mc.args.is_empty() && matches!(strip_paren(&mc.receiver), Expr::Path(_)) { return Some(mc); }
                cur = strip_paren(&mc.receiver);
            }
            Expr::Unary(u) if matches!(u.op, syn::UnOp::Not(_)) => cur = strip_paren(&u.expr),
            _ => return None,
        }
    }
}

pub fn is_compound(op: &BinOp) -> bool {
    matches!(op, BinOp::AddAssign(_) | BinOp::SubAssign(_) | BinOp::MulAssign(_) | BinOp::DivAssign(_) | BinOp::RemAssign(_)
        | BinOp::BitXorAssign(_) | BinOp::BitAndAssign(_) | BinOp::BitOrAssign(_) | BinOp::ShlAssign(_) | BinOp::ShrAssign(_))
}

/// One arm of an `if` chain / `match`.
pub struct Branch<'a> {
    /// Lean condition; `None` = unconditional (else / catch-all)
    pub cond: Option<CondSrc<'a>>,
    pub body: Body<'a>,
    /// pattern bindings: rust name ↦ (lean variable, type)
    pub binds: Vec<(String, String, RTy)>,
}
pub enum CondSrc<'a> {
    Expr(&'a Expr),
    /// already built tests plus an optional guard (translated with the bindings in scope)
    Pat { tests: Vec<String>, guard: Option<&'a Expr> },
    /// `if let Some(name) = expr`
    LetSome { expr: &'a Expr, name: String },
}
pub enum Body<'a> { Block(&'a syn::Block), Expr(&'a Expr), Empty }

impl<'w> FnTr<'w> {
    // ------------------------------------------------------------------ statement lists

    pub fn tr_block(&mut self, b: &syn::Block, k: &Kont) -> Res<Vec<String>> {
        let mark = self.push_scope();
        let r = self.tr_stmts(&b.stmts, k);
        self.pop_scope(mark);
        r
    }

    pub fn tr_stmts(&mut self, stmts: &[Stmt], k: &Kont) -> Res<Vec<String>> {
        let mut out: Vec<String> = vec![];
        for (i, st) in stmts.iter().enumerate() {
            let rest = &stmts[i + 1..];
            match st {
                Stmt::Local(l) => {
                    if self.tr_let(l, rest, k, &mut out)? { return Ok(out); }
                }
                Stmt::Item(it) => return Err(self.err(it, "nested item")),
                // `assert!(c, ..)` / `assert_eq!(a, b, ..)` / `assert_ne!(a, b, ..)`: a failing assertion is a panic (the message is dropped)
                Stmt::Macro(m) if m.mac.path.is_ident("assert") || m.mac.path.is_ident("assert_eq") || m.mac.path.is_ident("assert_ne") => {
                    use syn::punctuated::Punctuated;
                    let args = m.mac.parse_body_with(Punctuated::<Expr, syn::Token![,]>::parse_terminated).map_err(|_| self.err(m, "cannot parse the arguments of the assertion"))?;
                    let args: Vec<&Expr> = args.iter().collect();
                    let cx = if m.mac.path.is_ident("assert") {
                        if args.is_empty() { return Err(self.err(m, "assertion without arguments")); }
                        let x = self.tr_expr(args[0], Some(&RTy::Bool))?;
                        if x.ty != RTy::Bool { return Err(self.err(m, "assertion on a non-bool")); }
                        x
                    } else {
                        if args.len() < 2 { return Err(self.err(m, "assertion with fewer than two arguments")); }
                        let (l, r) = self.operands(args[0], args[1], None)?;
                        if l.ty != r.ty || !matches!(l.ty, RTy::Int(_) | RTy::U64 | RTy::Char | RTy::Bool | RTy::Str) { return Err(self.err(m, "assertion comparing unsupported types")); }
                        let mut x = Ex::pure(format!("decide ({} {} {})", l.a(), if m.mac.path.is_ident("assert_eq") { "=" } else { "≠" }, r.a()), RTy::Bool);
                        x.pure = l.pure && r.pure;
                        x
                    };
                    out.push(format!("let _ ← rsAssert {}", cx.a()));
                }
                Stmt::Macro(m) => return Err(self.err(m, "macro invocation")),
                Stmt::Expr(e, semi) => {
                    if rest.is_empty() && semi.is_none() {
                        out.extend(self.tr_tail(e, k)?);
                        return Ok(out);
                    }
                    match e {
                        Expr::Return(r) => {
                            if !rest.is_empty() { return Err(self.err(&rest[0], "statement after `return`")); }
                            out.extend(self.tr_return(e, r)?);
                            return Ok(out);
                        }
                        Expr::If(_) | Expr::Match(_) | Expr::Block(_) | Expr::Unsafe(_) | Expr::While(_) | Expr::ForLoop(_) => {
                            if self.tr_ctl_stmt(e, rest, k, &mut out)? { return Ok(out); }
                        }
                        Expr::Assign(a) => self.tr_assign(e, &a.left, None, &a.right, &mut out)?,
                        Expr::Binary(b) if is_compound(&b.op) => self.tr_assign(e, &b.left, Some(&b.op), &b.right, &mut out)?,
                        // `E?;` on a `Result<(), E>`
                        Expr::Try(t) => {
                            let inner = self.tr_expr(&t.expr, None)?;
                            match (&inner.ty, &self.ret) { (RTy::Res(_, et), RTy::Res(_, re)) if re == et => {} _ => return Err(self.err(e, "`?` statement that is not on a `Result` with the error type of the function")) }
                            let err_line = self.ret_line(&Ex::atom("(Except.error err)", self.ret.clone()));
                            out.push(format!("match {} with", inner.text));
                            out.push(format!("| Except.error err => {}", err_line));
                            out.push("| Except.ok _ => do".to_string());
                            let body = self.tr_stmts(rest, k)?;
                            out.extend(indent(body, 2));
                            return Ok(out);
                        }
                        Expr::MethodCall(mc) if mc.method == "for_each" => {
                            if self.tr_for_each(e, mc, rest, k, &mut out)? { return Ok(out); }
                        }
                        Expr::MethodCall(mc) => self.tr_method_stmt(e, mc, &mut out)?,
                        Expr::Call(_) => self.tr_call_stmt(e, &mut out)?,
                        _ => return Err(self.err(e, "unsupported expression statement")),
                    }
                }
            }
        }
        self.emit_local_writebacks(&mut out);
        out.extend(self.finish(None, k)?);
        Ok(out)
    }

    /// end of the block a conditional mutable borrow `let x = if C { &mut a } else { &mut b };` lives in: write the copy back
    fn emit_local_writebacks(&mut self, out: &mut Vec<String>) {
        let d = self.depth;
        let bs: Vec<LocalBorrow> = self.local_borrows.iter().filter(|b| b.depth == d).cloned().collect();
        for b in bs.iter().rev() {
            for n in [&b.cond, &b.var, &b.then_var, &b.else_var] { self.note_use(n); }
            out.push(format!("let {} := if {} then {} else {}", b.then_var, b.cond, b.var, b.then_var));
            out.push(format!("let {} := if {} then {} else {}", b.else_var, b.cond, b.else_var, b.var));
        }
        self.local_borrows.retain(|b| b.depth != d);
    }

    fn tr_return(&mut self, e: &Expr, r: &syn::ExprReturn) -> Res<Vec<String>> {
        if !self.local_borrows.is_empty() { return Err(self.err(e, "`return` while a conditional mutable borrow of a local is live")); }
        let ret = self.ret.clone();
        let v = match &r.expr {
            Some(x) => self.tr_expr(x, Some(&ret))?,
            None => Ex::atom("()", RTy::Unit),
        };
        if v.ty != ret { return Err(self.err(e, &format!("returns {} but the function returns {}", v.ty.rust(), ret.rust()))); }
        Ok(vec![self.ret_line(&v)])
    }

    fn ret_line(&self, v: &Ex) -> String {
        if !self.self_mutated.is_empty() || !self.inout.is_empty() {
            // `&mut self` / `&mut` parameters: the modified fields / parameters are part of the result; a field that is
            // mutably borrowed into a local (`let (a, b) = self.get_.._mut()`) is written back from that local
            let mut parts: Vec<String> = vec![];
            if v.ty != RTy::Unit { parts.push(v.text.clone()); }
            for f in &self.self_mutated {
                let mut text = f.clone();
                for (c, vars, tf, ef) in &self.writebacks {
                    if let (Some(i), Some(j)) = (tf.iter().position(|x| x == f), ef.iter().position(|x| x == f)) {
                        text = if i == j { vars[i].clone() } else { format!("(if {} then {} else {})", c, vars[i], vars[j]) };
                    }
                }
                parts.push(text);
            }
            parts.extend(self.inout.iter().cloned());
            // (inside a loop with `return`: the loop yields `Ctl.ret` of the complete result of the function)
            return match self.ret_mode { RetMode::Direct => format!("pure {}", tuple(&parts)), RetMode::Ctl => format!("pure (Ctl.ret {})", tuple(&parts)) };
        }
        match self.ret_mode {
            RetMode::Direct => match &v.m { Some(m) => m.clone(), None => format!("pure {}", v.a()) },
            RetMode::Ctl => format!("pure (Ctl.ret {})", v.a()),
        }
    }

    /// Lean type of the complete result of the function: the returned value, the modified fields of `&mut self`, the `&mut` parameters
    pub fn full_ret_lean(&self) -> String {
        if self.self_mutated.is_empty() && self.inout.is_empty() { return self.ret.lean_atom(); }
        let mut parts = vec![];
        if self.ret != RTy::Unit { parts.push(self.ret.lean_atom()); }
        for f in self.self_mutated.iter().chain(self.inout.iter()) {
            let t = self.env.iter().rev().find(|v| v.lean == *f).map(|v| v.ty.lean_atom()).unwrap_or_else(|| "_".to_string());
            parts.push(t);
        }
        if parts.len() == 1 { parts[0].clone() } else { format!("({})", parts.join(" × ")) }
    }

    /// does the function return more than its value (modified fields of `&mut self`, `&mut` parameters)?
    pub fn has_extra_results(&self) -> bool { !self.self_mutated.is_empty() || !self.inout.is_empty() }

    /// the side-effecting call that may run before the statement `e` belongs to: the head of its method chain, if that is
    /// a mutating method of a collection field of `self` or a translated `&mut self` method of the own type that returns a value
    pub fn effect_head_w(&self, e: &Expr) -> Option<*const syn::ExprMethodCall> {
        if let Some(m) = effect_head(e) { return Some(m as *const _); }
        let ns = self.target.container.ns().map(|s| s.to_string());
        let mut cur = strip_paren(e);
        loop {
            match cur {
                Expr::MethodCall(mc) => {
                    if path_ident(&mc.receiver).as_deref() == Some("self") {
                        return match self.world.fns.get(&(ns.clone(), mc.method.to_string())) { Some(i) if !i.self_mutated.is_empty() && i.ret != RTy::Unit => Some(mc as *const _), _ => None };
                    }
                    cur = strip_paren(&mc.receiver);
                }
                Expr::Unary(u) if matches!(u.op, syn::UnOp::Not(_)) => cur = strip_paren(&u.expr),
                _ => return None,
            }
        }
    }

    /// control falls off the end of a statement list with value `v` (`None` = unit)
    pub fn finish(&mut self, v: Option<Ex>, k: &Kont) -> Res<Vec<String>> {
        match k {
            Kont::Return => {
                let v = v.unwrap_or(Ex::atom("()", RTy::Unit));
                if v.ty != self.ret { return Err(self.err_plain(&format!("result has type {} but the function returns {}", v.ty.rust(), self.ret.rust()))); }
                if self.ret_mode != RetMode::Direct { return Err(self.err_plain("internal: function end inside a loop")); }
                Ok(vec![self.ret_line(&v)])
            }
            Kont::Value(_) => {
                let v = v.unwrap_or(Ex::atom("()", RTy::Unit));
                let cur = self.value_ty.last().expect("value context").clone();
                match cur {
                    None => *self.value_ty.last_mut().unwrap() = Some(v.ty.clone()),
                    Some(t) => if t != v.ty { return Err(self.err_plain(&format!("branches of different types {} / {}", t.rust(), v.ty.rust()))); }
                }
                Ok(vec![match &v.m { Some(m) => m.clone(), None => format!("pure {}", v.a()) }])
            }
            Kont::Seq { rest, k, env_len, depth } => {
                if let Some(v) = &v { if v.ty != RTy::Unit { return Err(self.err_plain("value of a block statement is not `()`")); } }
                self.dup_count += 1;
                if self.dup_count > 64 { return Err(self.err_plain("too many duplicated continuations (early returns in nested branches); unsupported")); }
                // back to the scope of the block that contains the remaining statements
                let saved_env = self.env.clone();
                let saved_depth = self.depth;
                // variables re-bound by assignment keep their names, block-local ones go out of scope
                self.env.truncate(*env_len);
                self.depth = *depth;
                let r = self.tr_stmts(rest, k);
                self.env = saved_env;
                self.depth = saved_depth;
                r
            }
            Kont::LoopNext { call, state } => {
                for s in state { self.note_use(s); }
                Ok(vec![format!("{} {}", call, state.join(" ")).trim_end().to_string()])
            }
            Kont::Yield(vars) => {
                for s in vars { self.note_use(s); }
                Ok(vec![format!("pure {}", tuple(vars))])
            }
        }
    }

    /// last expression of a block (its value)
    fn tr_tail(&mut self, e: &Expr, k: &Kont) -> Res<Vec<String>> {
        if self.local_borrows.iter().any(|b| b.depth == self.depth) { return Err(self.err(e, "a block that ends in a value while a conditional mutable borrow of a local is live")); }
        match e {
            Expr::Match(m) if is_option_match(m) && matches!(k, Kont::Return | Kont::Value(_)) => self.tr_option_match(e, m, k),
            Expr::If(_) | Expr::Match(_) | Expr::Block(_) | Expr::Unsafe(_) if matches!(k, Kont::Return | Kont::Value(_)) => {
                let branches = self.branches_of(e)?;
                let (pre, branches) = branches;
                let mut out = pre;
                out.extend(self.emit_chain(&branches, 0, k, e)?);
                Ok(out)
            }
            Expr::If(_) | Expr::Match(_) | Expr::Block(_) | Expr::Unsafe(_) | Expr::While(_) | Expr::ForLoop(_) => {
                let mut out = vec![];
                if !self.tr_ctl_stmt(e, &[], k, &mut out)? { out.extend(self.finish(None, k)?); }
                Ok(out)
            }
            Expr::Return(r) => self.tr_return(e, r),
            // a call for its effect on `&mut` arguments as the body of a `match` arm / last statement of a block
            Expr::Call(_) if !matches!(k, Kont::Return | Kont::Value(_)) => { let mut out = vec![]; self.tr_call_stmt(e, &mut out)?; out.extend(self.finish(None, k)?); Ok(out) }
            // `panic!()` / `unreachable!()` as the value of a branch: the function panics
            Expr::Macro(m) if (m.mac.path.is_ident("panic") || m.mac.path.is_ident("unreachable")) => Ok(vec!["none".to_string()]),
            // `{ self.bits |= x }`: an assignment as the (unit) value of a block
            Expr::Assign(a) => { let mut out = vec![]; self.tr_assign(e, &a.left, None, &a.right, &mut out)?; out.extend(self.finish(None, k)?); Ok(out) }
            Expr::Binary(b) if is_compound(&b.op) => { let mut out = vec![]; self.tr_assign(e, &b.left, Some(&b.op), &b.right, &mut out)?; out.extend(self.finish(None, k)?); Ok(out) }
            _ => {
                let exp = match k { Kont::Return => Some(self.ret.clone()), Kont::Value(t) => t.clone().or_else(|| self.value_ty.last().cloned().flatten()), _ => None };
                match k {
                    Kont::Return => {
                        // `SRC.into_iter().filter(|&x| self.m(x)).collect()` with a `&mut self` predicate
                        if let Some((mut pre, v)) = self.try_filter_collect(e)? {
                            pre.extend(self.finish(Some(v), k)?);
                            return Ok(pre);
                        }
                        self.struct_lit_pending_ok = matches!(strip_paren(e), Expr::Struct(_)) || matches!(strip_paren(e), Expr::Call(c) if c.args.len() == 1 && matches!(strip_paren(&c.args[0]), Expr::Struct(_)));
                        let v = self.tr_expr(e, exp.as_ref());
                        self.struct_lit_pending_ok = false;
                        let v = v?;
                        let mut pre: Vec<String> = self.pending.drain(..).collect();
                        pre.extend(self.finish(Some(v), k)?);
                        Ok(pre)
                    }
                    Kont::Value(_) => {
                        let v = self.tr_expr(e, exp.as_ref())?;
                        self.finish(Some(v), k)
                    }
                    _ => Err(self.err(e, "value of a statement block is not used")),
                }
            }
        }
    }

    // ------------------------------------------------------------------ let / assignment

    fn tr_let(&mut self, l: &syn::Local, rest: &[Stmt], k: &Kont, out: &mut Vec<String>) -> Res<bool> {
        let (pat, ann) = match &l.pat {
            Pat::Type(pt) => (&*pt.pat, Some(self.resolve_type(&pt.ty)?)),
            p => (p, None),
        };
        let init = match l.init.as_ref() {
            Some(i) => i,
            None => {
                // `let x;` (deferred initialisation): the variable is bound by its first assignment; its type is the
                // annotation, else the type of a typed operand it is combined with later (checked at every use), else
                // the type of the first value assigned
                let name = match pat { Pat::Ident(pi) if pi.by_ref.is_none() && pi.subpat.is_none() => pi.ident.to_string(), _ => return Err(self.err(l, "unsupported `let` pattern")) };
                let ty = match ann { Some(t) => t, None => self.infer_from_usage(&name, rest).unwrap_or(RTy::Infer) };
                self.declare(l, &name, ty, true, None)?;
                return Ok(false);
            }
        };
        if init.diverge.is_some() { return Err(self.err(l, "`let .. else`")); }
        let e = &*init.expr;
        // `let (a, b) = e;`
        if let Pat::Tuple(pt) = pat {
            let mut names = vec![];
            for p in &pt.elems {
                match p {
                    Pat::Ident(pi) if pi.by_ref.is_none() && pi.subpat.is_none() => names.push((pi.ident.to_string(), pi.mutability.is_some())),
                    _ => return Err(self.err(l, "unsupported pattern inside a tuple pattern")),
                }
            }
            if contains_return_expr(e) { return Err(self.err(e, "`return`/`?` inside a `let` initialiser")); }
            // `let (a, b) = self.get_active_and_passive_mut();` (a `What::MutBorrow` method)
            if let Expr::MethodCall(mc) = strip_paren(e) {
                let key = (self.target.container.ns().map(|s| s.to_string()), mc.method.to_string());
                if path_ident(&mc.receiver).as_deref() == Some("self") && mc.args.is_empty() {
                    if let Some(bi) = self.world.borrows.get(&key).cloned() {
                        if names.len() != bi.then_fields.len() { return Err(self.err(l, "tuple pattern arity")); }
                        if self.depth != 1 || self.dup_count > 0 || !self.loop_stack_empty() || self.ret_mode != RetMode::Direct { return Err(self.err(l, "a mutable borrow of fields of `self` is only supported at the top level of the function body")); }
                        if !self.writebacks.is_empty() { return Err(self.err(l, "second mutable borrow of fields of `self`")); }
                        let cx = self.tr_expr(&bi.cond, Some(&RTy::Bool))?;
                        if cx.ty != RTy::Bool { return Err(self.err(l, "borrow condition is not bool")); }
                        let c = self.fresh("borrow_cond");
                        out.push(bind_line(&c, &cx));
                        let mut tvars = vec![];
                        let mut evars = vec![];
                        let mut tys = vec![];
                        for (tf, ef) in bi.then_fields.iter().zip(bi.else_fields.iter()) {
                            let tv = self.self_field_var(e, tf)?;
                            let ev = self.self_field_var(e, ef)?;
                            if tv.ty != ev.ty || !matches!(tv.ty, RTy::Struct(_)) { return Err(self.err(l, "the borrowed fields must be values of the same regenerated struct")); }
                            self.note_use(&tv.lean); self.note_use(&ev.lean);
                            tys.push(tv.ty.clone());
                            tvars.push(tv.lean); evars.push(ev.lean);
                        }
                        let mut vs = vec![];
                        for ((n, _), t) in names.iter().zip(tys.iter()) { vs.push(self.declare(l, n, t.clone(), true, None)?); }
                        out.push(format!("let ({}) := if {} then ({}) else ({})", vs.join(", "), c, tvars.join(", "), evars.join(", ")));
                        let lean_of = |fs: &Vec<String>, this: &Self| -> Vec<String> { fs.iter().map(|f| this.lookup(&format!("self.{}", f)).map(|v| v.lean.clone()).unwrap_or_default()).collect() };
                        let tl = lean_of(&bi.then_fields, self);
                        let el = lean_of(&bi.else_fields, self);
                        self.writebacks.push((c, vs, tl, el));
                        return Ok(false);
                    }
                }
            }
            let (text, monadic, ty) = match e {
                Expr::If(_) | Expr::Match(_) | Expr::Block(_) => {
                    let (lines, ty) = self.tr_ctl_value(e, ann.as_ref())?;
                    match compress(&lines) {
                        Some(t) => (t, false, ty),
                        None => { let mut ls = indent(lines, 2); if let Some(last) = ls.last_mut() { last.push(')'); } (format!("(\n{}", ls.join("\n")), true, ty) }
                    }
                }
                _ => {
                    self.effect_allowed = self.effect_head_w(e);
                    let x = self.tr_expr(e, ann.as_ref());
                    self.effect_allowed = None;
                    let x = x?;
                    out.append(&mut self.pending);
                    match &x.m { Some(m) => (m.clone(), true, x.ty.clone()), None => (x.text.clone(), false, x.ty.clone()) }
                }
            };
            let tys = match &ty { RTy::Tuple(ts) if ts.len() == names.len() => ts.clone(), _ => return Err(self.err(l, &format!("tuple pattern for a value of type {}", ty.rust()))) };
            if let Some(a) = &ann { if !a.compat(&ty) { return Err(self.err(l, "annotation does not match")); } }
            let mut vs = vec![];
            for ((n, m), t) in names.iter().zip(tys.iter()) {
                if let RTy::Flat(_) = t { return Err(self.err(l, "binding a struct value")); }
                vs.push(self.declare(l, n, t.clone(), *m, None)?);
            }
            for line in format!("let ({}) {} {}", vs.join(", "), if monadic { "←" } else { ":=" }, text).split('\n') { out.push(line.to_string()); }
            return Ok(false);
        }
        let (name, mutable) = match pat {
            Pat::Ident(pi) if pi.by_ref.is_none() && pi.subpat.is_none() => (pi.ident.to_string(), pi.mutability.is_some()),
            _ => return Err(self.err(l, "unsupported `let` pattern")),
        };
        // `let x = if C { &mut a } else { &mut b };`: conditional mutable borrow of one of two struct locals
        if let Some((c, a, b)) = cond_mut_borrow(e) {
            if ann.is_some() || mutable { return Err(self.err(l, "annotated / `mut` conditional mutable borrow")); }
            let av = self.lookup(&a).cloned().ok_or_else(|| self.err(l, "unknown variable"))?;
            let bv = self.lookup(&b).cloned().ok_or_else(|| self.err(l, "unknown variable"))?;
            if a == b || av.ty != bv.ty || !matches!(av.ty, RTy::Struct(_)) || !av.mutable || !bv.mutable || av.param.is_some() || bv.param.is_some() {
                return Err(self.err(l, "a conditional mutable borrow is only supported between two distinct mutable locals of the same regenerated struct type"));
            }
            if contains_return_stmts(rest) { return Err(self.err(l, "`return`/`?` after a conditional mutable borrow in the same block")); }
            // while the borrow may be live the two variables must not be used directly
            let mut mf = MentionFinder { names: vec![a.clone(), b.clone()], found: false };
            for st in rest { mf.visit_stmt(st); }
            if mf.found { return Err(self.err(l, &format!("`{}` / `{}` is used in the same block after it was conditionally borrowed", a, b))); }
            if !self.writebacks.is_empty() { return Err(self.err(l, "conditional mutable borrow while fields of `self` are borrowed")); }
            let cx = self.tr_expr(c, Some(&RTy::Bool))?;
            if cx.ty != RTy::Bool { return Err(self.err(l, "borrow condition is not bool")); }
            let cv = self.fresh("borrow_cond");
            out.push(bind_line(&cv, &cx));
            self.note_use(&av.lean); self.note_use(&bv.lean);
            let v = self.declare(l, &name, av.ty.clone(), true, None)?;
            out.push(format!("let {} : {} := if {} then {} else {}", v, av.ty.lean(), cv, av.lean, bv.lean));
            self.env.push(Var { rust: format!("<{}>", cv), lean: cv.clone(), ty: RTy::Bool, depth: self.depth, mutable: false, param: None, declared: true });
            self.local_borrows.push(LocalBorrow { depth: self.depth, cond: cv, var: v, then_var: av.lean, else_var: bv.lean });
            return Ok(false);
        }
        // `let p = match E { P1 => x.m1_ref(), .., _ => panic!() };`: a place inside the struct local `x`
        if let Some((recv, sn)) = self.place_match(e) {
            if ann.is_some() || mutable { return Err(self.err(l, "annotated / `mut` place alias")); }
            self.place_value_of = Some((recv.clone(), sn.clone(), None));
            let r = self.tr_ctl_value(e, Some(&RTy::Int(IntTy::Usize)));
            let pv = self.place_value_of.take();
            let (lines, ty) = r?;
            if ty != RTy::Int(IntTy::Usize) { return Err(self.err(l, "internal: place index is not usize")); }
            let field = pv.and_then(|p| p.2).ok_or_else(|| self.err(l, "no place method found in the arms"))?;
            if self.lookup(&name).is_some() || self.place_aliases.iter().any(|p| p.rust == name) { return Err(self.err(l, "a place alias must not shadow another variable")); }
            let iv = self.fresh(&format!("{}_index", lean_ident(&name)));
            match compress(&lines) {
                Some(t) => out.push(format!("let {} : Int := {}", iv, t)),
                None => {
                    out.push(format!("let {} : Int ← (", iv));
                    let mut ls = indent(lines, 2);
                    if let Some(last) = ls.last_mut() { last.push(')'); }
                    out.extend(ls);
                }
            }
            self.env.push(Var { rust: format!("<{}>", iv), lean: iv.clone(), ty: RTy::Int(IntTy::Usize), depth: self.depth, mutable: false, param: None, declared: true });
            self.place_aliases.push(PlaceAlias { depth: self.depth, rust: name, recv, field, index_var: iv });
            return Ok(false);
        }
        // `let f = |x| body;`: a local closure (only called with plain arguments; the body is translated at each call)
        if let Expr::Closure(cl) = strip_paren(e) {
            if cl.inputs.len() != 1 || cl.capture.is_some() || cl.asyncness.is_some() || mutable || ann.is_some() { return Err(self.err(l, "unsupported local closure form")); }
            let (pname, pann) = match &cl.inputs[0] {
                Pat::Ident(pi) if pi.subpat.is_none() && pi.by_ref.is_none() && pi.mutability.is_none() => (pi.ident.to_string(), None),
                Pat::Type(pt) => match &*pt.pat { Pat::Ident(pi) if pi.subpat.is_none() => (pi.ident.to_string(), Some(self.resolve_type(&pt.ty)?)), _ => return Err(self.err(l, "unsupported closure parameter pattern")) },
                _ => return Err(self.err(l, "unsupported closure parameter pattern")),
            };
            if contains_return_expr(&cl.body) { return Err(self.err(l, "`return`/`?` inside a local closure")); }
            if !self.assigned_outer_expr(&cl.body)?.is_empty() { return Err(self.err(l, "a local closure that modifies outer variables")); }
            let pty = match pann { Some(t) => t, None => self.closure_param_type(&pname, &cl.body).ok_or_else(|| self.err(l, "cannot determine the type of the closure parameter (annotate it)"))? };
            if self.lookup(&name).is_some() || self.lookup(&pname).is_some() { return Err(self.err(l, "a local closure / its parameter must not shadow a variable")); }
            self.local_closures.push((name, pname, pty, (*cl.body).clone()));
            return Ok(false);
        }
        // `let x = SRC.into_iter().find(|y| P).ok_or_else(|| ERR)?;`
        if let Expr::Try(t) = e {
            if let Some(r) = self.try_find_or_err(l, &name, mutable, &t.expr, rest, k, out)? { return Ok(r); }
        }
        // `let x = E?;` on a `Result` (same error type as the function's)
        if let Expr::Try(t) = e {
            self.effect_allowed = self.effect_head_w(&t.expr);
            let inner = self.tr_expr(&t.expr, None);
            self.effect_allowed = None;
            let inner = inner?;
            out.append(&mut self.pending);
            if let RTy::Res(vt, et) = &inner.ty {
                if let RTy::Packed(_, _) = &**vt {
                    // the payload is a packed struct value: bound as a flattened struct local
                    match &self.ret { RTy::Res(_, re) if re == et => {} _ => return Err(self.err(e, "`?` on a `Result` in a function with a different error type")) }
                    if ann.is_some() || mutable { return Err(self.err(l, "annotated / `mut` binding of a struct value")); }
                    let err_line = self.ret_line(&Ex::atom("(Except.error err)", self.ret.clone()));
                    out.push(format!("match {} with", inner.text));
                    out.push(format!("| Except.error err => {}", err_line));
                    let mark = self.push_scope();
                    let pat_text = self.bind_list_element(l, &name, vt)?;
                    out.push(format!("| Except.ok {} => do", pat_text));
                    let body = self.tr_stmts(rest, k);
                    self.pop_scope(mark);
                    out.extend(indent(body?, 2));
                    return Ok(true);
                }
            }
            if let RTy::Res(vt, et) = &inner.ty {
                match &self.ret { RTy::Res(_, re) if re == et => {} _ => return Err(self.err(e, "`?` on a `Result` in a function with a different error type")) }
                if let Some(a) = &ann { if *a != **vt { return Err(self.err(l, "annotation does not match")); } }
                let err_line = self.ret_line(&Ex::atom("(Except.error err)", self.ret.clone()));
                out.push(format!("match {} with", inner.text));
                out.push(format!("| Except.error err => {}", err_line));
                let v = self.declare(l, &name, (**vt).clone(), mutable, None)?;
                out.push(format!("| Except.ok {} => do", v));
                let body = self.tr_stmts(rest, k)?;
                out.extend(indent(body, 2));
                return Ok(true);
            }
        }
        // `let x = E?;`
        if let Expr::Try(t) = e {
            let inner = self.tr_expr(&t.expr, None)?;
            let vt = match &inner.ty { RTy::Opt(t) => (**t).clone(), _ => return Err(self.err(e, "`?` on a non-Option")) };
            if !matches!(self.ret, RTy::Opt(_)) { return Err(self.err(e, "`?` in a function that does not return Option")); }
            if let Some(a) = &ann { if *a != vt { return Err(self.err(l, "annotation does not match")); } }
            let none_line = self.ret_line(&Ex::atom("none", self.ret.clone()));
            out.push(format!("match {} with", inner.text));
            out.push(format!("| none => {}", none_line));
            let v = self.declare(l, &name, vt, mutable, None)?;
            out.push(format!("| some {} => do", v));
            let body = self.tr_stmts(rest, k)?;
            out.extend(indent(body, 2));
            return Ok(true);
        }
        if contains_return_expr(e) { return Err(self.err(e, "`return`/`?` inside a `let` initialiser")); }
        // `let mut mv = Move { bits: 0, mvvlva: 0 };` for a FLATTENED struct: one variable per field
        if let Expr::Struct(sl) = strip_paren(e) {
            if let Some(sn) = self.flat_struct_of_literal(sl) {
                if ann.is_some() { return Err(self.err(l, "type annotation on a flattened struct local")); }
                return self.tr_let_flat_struct(l, &name, mutable, sl, &sn, out).map(|_| false);
            }
        }
        // an initialiser made of untyped literals only (`let off = if c { 0 } else { 8 };`): the type is that of a typed
        // operand the variable is combined with later (every use is type-checked)
        let mut inferred = false;
        let ann = if ann.is_none() && all_untyped(e) {
            inferred = true;
            Some(self.infer_from_usage(&name, rest).ok_or_else(|| self.err(l, "cannot determine the type of this untyped initialiser from the uses of the variable (add a suffix or annotation)"))?)
        } else if ann.is_none() && branch_tails(e).iter().any(|t| is_untyped(t)) {
            // `if c { 0 } else { 8_u32 }`: an untyped branch value takes the type of a suffixed literal in another branch
            let hint = branch_tails(e).iter().find_map(|t| match strip_paren(t) { Expr::Lit(syn::ExprLit { lit: syn::Lit::Int(i), .. }) if !i.suffix().is_empty() => IntTy::from_name(i.suffix()), _ => None });
            match hint { Some(t) => { inferred = true; Some(if t == IntTy::U64 && self.bits { RTy::U64 } else { RTy::Int(t) }) } None => ann }
        } else { ann };
        match e {
            Expr::If(_) | Expr::Match(_) | Expr::Block(_) | Expr::Unsafe(_) => {
                let (lines, ty) = self.tr_ctl_value(e, ann.as_ref())?;
                if let Some(a) = &ann { if *a != ty { return Err(self.err(l, "annotation does not match")); } }
                let tl0 = ty.lean();
                let v = self.declare(l, &name, ty, mutable, None)?;
                match compress(&lines) {
                    Some(t) if inferred => out.push(format!("let {} : {} := {}", v, tl0, t)),
                    Some(t) => out.push(format!("let {} := {}", v, t)),
                    None => {
                        let tl = self.env.last().map(|x| x.ty.lean()).unwrap_or_default();
                        out.push(format!("let {} : {} ← (", v, tl));
                        let mut ls = indent(lines, 2);
                        if let Some(last) = ls.last_mut() { last.push(')'); }
                        out.extend(ls);
                    }
                }
            }
            _ => {
                self.effect_allowed = self.effect_head_w(e);
                let x = self.tr_expr(e, ann.as_ref());
                self.effect_allowed = None;
                let x = x?;
                out.append(&mut self.pending);
                if let Some(a) = &ann { if !a.compat(&x.ty) { return Err(self.err(l, &format!("annotation {} does not match {}", a.rust(), x.ty.rust()))); } }
                if let RTy::Flat(_) = x.ty { return Err(self.err(l, "binding a struct value")); }
                let v = self.declare(l, &name, x.ty.clone(), mutable, None)?;
                out.push(bind_line(&v, &x));
            }
        }
        Ok(false)
    }

    fn tr_assign(&mut self, e: &Expr, left: &Expr, op: Option<&BinOp>, right: &Expr, out: &mut Vec<String>) -> Res<()> {
        // `self.vec[i] = x` on a list-mode Vec field
        if let (Expr::Index(ix), None) = (strip_paren(left), op) {
            let base = self.tr_expr(&ix.expr, None)?;
            if let RTy::VecList(el) = &base.ty {
                let idx = self.tr_expr(&ix.index, Some(&RTy::Int(IntTy::Usize)))?;
                let x = self.tr_expr(right, Some(el))?;
                if x.ty != **el || idx.ty != RTy::Int(IntTy::Usize) { return Err(self.err(e, "type mismatch in indexed assignment")); }
                let name = base.text.clone();
                self.mark_self_assigned(e, &name)?;
                out.push(format!("let {} ← vecSet {} {} {}", name, base.a(), idx.a(), x.a()));
                return Ok(());
            }
            return Err(self.err(e, "indexed assignment is only supported on list-mode Vec fields"));
        }
        // `x.f = e` / `x.f op= e` for a mutable local (or `&mut` parameter) `x` that is a value of a regenerated struct
        if let Expr::Field(fe) = strip_paren(left) {
            if let (Some(xn), syn::Member::Named(fname)) = (path_ident(&fe.base), &fe.member) {
                if let Some(xv) = self.lookup(&xn).cloned() {
                    // a flattened struct local: the field is a variable of its own
                    if let (RTy::Flat(_), None) = (&xv.ty, xv.param) {
                        let v = self.lookup(&format!("{}.{}", xn, fname)).cloned().ok_or_else(|| self.err(e, "unknown field of a flattened struct local"))?;
                        if !v.mutable { return Err(self.err(e, "assignment to a field of an immutable struct value")); }
                        self.note_use(&v.lean);
                        let x = self.new_value(e, &v.lean, &v.ty, op, right)?;
                        out.push(bind_line(&v.lean, &x));
                        return Ok(());
                    }
                    if let RTy::Struct(sn) = &xv.ty {
                        if !xv.mutable { return Err(self.err(e, "assignment to a field of an immutable struct value")); }
                        let fname = fname.to_string();
                        let fty = self.world.structs[sn].fields.iter().find(|(n, _)| *n == fname).map(|(_, t)| t.clone()).ok_or_else(|| self.err(e, "unknown field"))?;
                        let fty = self.struct_field_type(&fty, sn).map_err(|m| self.err(e, &m))?;
                        self.note_use(&xv.lean);
                        let x = self.new_value(e, &format!("{}.{}", xv.lean, lean_ident(&fname)), &fty, op, right)?;
                        let tmp = self.fresh("field");
                        out.push(bind_line(&tmp, &x));
                        out.push(format!("let {} := {{ {} with {} := {} }}", xv.lean, xv.lean, lean_ident(&fname), tmp));
                        return Ok(());
                    }
                }
            }
        }
        // `*p = e` / `*p op= e` for a place alias `p` (`let p = match .. { .. => x.m_ref(), .. }`)
        if let Expr::Unary(u) = strip_paren(left) {
            if let (syn::UnOp::Deref(_), Some(pn)) = (&u.op, match strip_paren(&u.expr) { Expr::Path(p) => p.path.get_ident().map(|i| i.to_string()), _ => None }) {
                if let Some(pa) = self.place_aliases.iter().rev().find(|p| p.rust == pn).cloned() {
                    let xv = self.lookup(&pa.recv).cloned().ok_or_else(|| self.err(e, "assignment through an unknown variable"))?;
                    let sn = match &xv.ty { RTy::Struct(sn) => sn.clone(), _ => return Err(self.err(e, "place alias into something that is not a value of a regenerated struct")) };
                    if !xv.mutable { return Err(self.err(e, "assignment through an immutable struct value")); }
                    let fty = self.world.structs[&sn].fields.iter().find(|(n, _)| *n == pa.field).map(|(_, t)| t.clone()).ok_or_else(|| self.err(e, "unknown field"))?;
                    let el = match self.struct_field_type(&fty, &sn).map_err(|m| self.err(e, &m))? { RTy::VecList(el) => *el, _ => return Err(self.err(e, "place alias into a field that is not an array")) };
                    self.note_use(&xv.lean); self.note_use(&pa.index_var);
                    let arr = format!("{}.{}", xv.lean, lean_ident(&pa.field));
                    let cur = self.fresh("old");
                    out.push(format!("let {} : {} ← vecIdx {} {}", cur, el.lean(), arr, pa.index_var));
                    let x = self.new_value(e, &cur, &el, op, right)?;
                    let nv = self.fresh("new");
                    out.push(bind_line(&nv, &x));
                    let na = self.fresh("array");
                    out.push(format!("let {} ← vecSet {} {} {}", na, arr, pa.index_var, nv));
                    out.push(format!("let {} := {{ {} with {} := {} }}", xv.lean, xv.lean, lean_ident(&pa.field), na));
                    return Ok(());
                }
            }
        }
        // `*x.m(args) = e` / `*x.m(args) op= e` for a place method `m` (`What::PlaceFn`: `&mut self.field[INDEX]`)
        if let Expr::Unary(u) = strip_paren(left) {
            if let (syn::UnOp::Deref(_), Expr::MethodCall(mc)) = (&u.op, strip_paren(&u.expr)) {
                let xn = path_ident(&mc.receiver).ok_or_else(|| self.err(e, "unsupported assignment target"))?;
                let xv = self.lookup(&xn).cloned().ok_or_else(|| self.err(e, "assignment through an unknown variable"))?;
                let sn = match &xv.ty { RTy::Struct(sn) => sn.clone(), _ => return Err(self.err(e, "place method on something that is not a value of a regenerated struct")) };
                if !xv.mutable { return Err(self.err(e, "assignment through an immutable struct value")); }
                let pi = self.world.places.get(&(Some(sn.clone()), mc.method.to_string())).cloned().ok_or_else(|| self.err(e, "method is not registered as a place method"))?;
                let fty = self.world.structs[&sn].fields.iter().find(|(n, _)| *n == pi.field).map(|(_, t)| t.clone()).ok_or_else(|| self.err(e, "unknown field"))?;
                let el = match self.struct_field_type(&fty, &sn).map_err(|m| self.err(e, &m))? { RTy::VecList(el) => *el, _ => return Err(self.err(e, "place method on a field that is not an array")) };
                self.note_use(&xv.lean);
                // the index (evaluates the arguments of the place method)
                let args: Vec<&Expr> = mc.args.iter().collect();
                let ix = self.call_translated_pub(e, &pi.index_fn, None, &args)?;
                let iv = self.fresh("index");
                out.push(bind_line(&iv, &ix));
                let arr = format!("{}.{}", xv.lean, lean_ident(&pi.field));
                let cur = self.fresh("old");
                out.push(format!("let {} : {} ← vecIdx {} {}", cur, el.lean(), arr, iv));
                let x = self.new_value(e, &cur, &el, op, right)?;
                let nv = self.fresh("new");
                out.push(bind_line(&nv, &x));
                let na = self.fresh("array");
                out.push(format!("let {} ← vecSet {} {} {}", na, arr, iv, nv));
                out.push(format!("let {} := {{ {} with {} := {} }}", xv.lean, xv.lean, lean_ident(&pi.field), na));
                return Ok(());
            }
        }
        let name = match path_ident(left) {
            Some(n) => n,
            None => match self_field(left) {
                // a field of `&mut self` (registered as a mutable variable `self.f` by the pre-scan)
                Some(f) => { self.self_field_var(e, &f)?; format!("self.{}", f) }
                None => return Err(self.err(e, "unsupported assignment target")),
            },
        };
        let v = self.lookup(&name).cloned().ok_or_else(|| self.err(e, "assignment to an unknown variable"))?;
        if !v.mutable { return Err(self.err(e, "assignment to an immutable variable")); }
        if v.ty == RTy::Infer {
            // first assignment of a `let x;` variable whose type is not known yet: the type of the value
            if op.is_some() { return Err(self.err(e, "compound assignment to an uninitialised variable")); }
            let x = self.tr_expr(right, None)?;
            if matches!(x.ty, RTy::Flat(_) | RTy::Infer | RTy::Unit) { return Err(self.err(e, "unsupported value for a `let x;` variable")); }
            if let Some(i) = self.env.iter().rposition(|w| w.rust == name) { self.env[i].ty = x.ty.clone(); }
            out.push(bind_line(&v.lean, &x));
            return Ok(());
        }
        self.note_use(&v.lean);
        let x = self.new_value(e, &v.lean, &v.ty, op, right)?;
        out.push(bind_line(&v.lean, &x));
        Ok(())
    }

    /// the value stored by `place = right` / `place op= right`, where `cur` is the Lean text of the current value
    fn new_value(&mut self, e: &Expr, cur: &str, ty: &RTy, op: Option<&BinOp>, right: &Expr) -> Res<Ex> {
        let x = match op {
            None => self.tr_expr(right, Some(ty))?,
            Some(op) if *ty == RTy::U64 => {
                match op {
                    BinOp::ShlAssign(_) | BinOp::ShrAssign(_) => {
                        let r = self.tr_expr(right, if is_untyped(right) { Some(&RTy::Int(IntTy::I32)) } else { None })?;
                        let amount = match &r.ty { RTy::U64 => format!("(u64ToInt {})", r.a()), RTy::Int(_) => r.a(), _ => return Err(self.err(e, "shift amount is not an integer")) };
                        Ex::monadic(format!("{} {} {}", if matches!(op, BinOp::ShlAssign(_)) { "u64Shl" } else { "u64Shr" }, cur, amount), RTy::U64)
                    }
                    _ => {
                        let r = self.tr_expr(right, Some(&RTy::U64))?;
                        if r.ty != RTy::U64 { return Err(self.err(e, "operand type mismatch")); }
                        match op {
                            BinOp::BitAndAssign(_) | BinOp::BitOrAssign(_) | BinOp::BitXorAssign(_) => {
                                let o = match op { BinOp::BitAndAssign(_) => "&&&", BinOp::BitOrAssign(_) => "|||", _ => "^^^" };
                                let mut x = Ex::pure(format!("{} {} {}", cur, o, r.a()), RTy::U64);
                                x.pure = r.pure;
                                x
                            }
                            BinOp::AddAssign(_) => Ex::monadic(format!("u64Add {} {}", cur, r.a()), RTy::U64),
                            BinOp::SubAssign(_) => Ex::monadic(format!("u64Sub {} {}", cur, r.a()), RTy::U64),
                            BinOp::MulAssign(_) => Ex::monadic(format!("u64Mul {} {}", cur, r.a()), RTy::U64),
                            _ => return Err(self.err(e, "unsupported compound assignment")),
                        }
                    }
                }
            }
            Some(op) => {
                let t = self.int_of(e, ty)?;
                let r = self.tr_expr(right, Some(ty))?;
                if r.ty != *ty { return Err(self.err(e, "operand type mismatch")); }
                match op {
                    BinOp::AddAssign(_) => Ex::monadic(format!("chk {} ({} + {})", t.lean(), cur, r.a()), ty.clone()),
                    BinOp::SubAssign(_) => Ex::monadic(format!("chk {} ({} - {})", t.lean(), cur, r.a()), ty.clone()),
                    BinOp::MulAssign(_) => Ex::monadic(format!("chk {} ({} * {})", t.lean(), cur, r.a()), ty.clone()),
                    BinOp::DivAssign(_) => Ex::monadic(format!("div {} {} {}", t.lean(), cur, r.a()), ty.clone()),
                    BinOp::RemAssign(_) => Ex::monadic(format!("rem {} {} {}", t.lean(), cur, r.a()), ty.clone()),
                    _ => return Err(self.err(e, "unsupported compound assignment")),
                }
            }
        };
        if !x.ty.compat(ty) { return Err(self.err(e, &format!("assigning {} to a place of type {}", x.ty.rust(), ty.rust()))); }
        Ok(x)
    }

    /// a call in statement position: `Self::make_castle(active, ..);` (the `&mut` struct arguments are rebound)
    fn tr_call_stmt(&mut self, e: &Expr, out: &mut Vec<String>) -> Res<()> {
        self.in_call_stmt = true;
        self.last_inout.clear();
        let x = self.tr_expr(e, Some(&RTy::Unit));
        self.in_call_stmt = false;
        let x = x?;
        if x.ty != RTy::Unit { return Err(self.err(e, "value of a call statement is not `()`")); }
        match &x.m {
            Some(m) => out.push(format!("let {} ← {}", pat_tuple(&self.last_inout.clone()), m)),
            None => {}
        }
        self.last_inout.clear();
        Ok(())
    }

    // ------------------------------------------------------------------ branches

    /// `if`/`else if`/`else`, `match`, `{ .. }` as a chain of branches; returns statements to emit first (scrutinee)
    fn branches_of<'a>(&mut self, e: &'a Expr) -> Res<(Vec<String>, Vec<Branch<'a>>)> {
        match e {
            Expr::Block(b) => {
                if b.label.is_some() { return Err(self.err(e, "labelled block")); }
                Ok((vec![], vec![Branch { cond: None, body: Body::Block(&b.block), binds: vec![] }]))
            }
            // `unsafe { .. }` is an ordinary block (every operation inside must still be in the mapping table)
            Expr::Unsafe(u) => Ok((vec![], vec![Branch { cond: None, body: Body::Block(&u.block), binds: vec![] }])),
            Expr::If(_) => {
                let mut out = vec![];
                let mut cur = e;
                loop {
                    match cur {
                        Expr::If(i) => {
                            if let Expr::Let(l) = &*i.cond {
                                let name = match &*l.pat {
                                    Pat::TupleStruct(ts) if ts.qself.is_none() && ts.path.is_ident("Some") && ts.elems.len() == 1 => match &ts.elems[0] {
                                        Pat::Ident(pi) if pi.subpat.is_none() && pi.by_ref.is_none() && pi.mutability.is_none() => pi.ident.to_string(),
                                        _ => return Err(self.err(cur, "`if let` is only supported with the pattern `Some(name)`")),
                                    },
                                    _ => return Err(self.err(cur, "`if let` is only supported with the pattern `Some(name)`")),
                                };
                                out.push(Branch { cond: Some(CondSrc::LetSome { expr: &l.expr, name }), body: Body::Block(&i.then_branch), binds: vec![] });
                            } else {
                                out.push(Branch { cond: Some(CondSrc::Expr(&i.cond)), body: Body::Block(&i.then_branch), binds: vec![] });
                            }
                            match &i.else_branch {
                                Some((_, eb)) => cur = eb,
                                None => { out.push(Branch { cond: None, body: Body::Empty, binds: vec![] }); break; }
                            }
                        }
                        Expr::Block(b) => { out.push(Branch { cond: None, body: Body::Block(&b.block), binds: vec![] }); break; }
                        _ => return Err(self.err(cur, "unsupported else branch")),
                    }
                }
                Ok((out_pre(), out))
            }
            Expr::Match(m) => self.match_branches(e, m),
            _ => Err(self.err(e, "internal: not a branching expression")),
        }
    }

    fn match_branches<'a>(&mut self, e: &'a Expr, m: &'a syn::ExprMatch) -> Res<(Vec<String>, Vec<Branch<'a>>)> {
        let mut pre = vec![];
        // scrutinee components
        let comps: Vec<&Expr> = match strip_paren(&m.expr) { Expr::Tuple(t) => t.elems.iter().collect(), x => vec![x] };
        let is_tuple = matches!(strip_paren(&m.expr), Expr::Tuple(_));
        let mut scr: Vec<(String, RTy)> = vec![];
        for c in &comps {
            let x = self.tr_expr(c, None)?;
            let is_var = x.atomic && x.pure && x.text.chars().all(|ch| ch.is_alphanumeric() || ch == '_');
            if is_var { scr.push((x.text.clone(), x.ty.clone())); } else {
                let t = self.fresh("scrutinee");
                pre.push(bind_line(&t, &x));
                scr.push((t, x.ty.clone()));
            }
        }
        let mut out = vec![];
        for arm in &m.arms {
            let pats: Vec<&Pat> = match (&arm.pat, is_tuple) {
                (Pat::Tuple(t), true) => { if t.elems.len() != scr.len() { return Err(self.err(&arm.pat, "tuple pattern arity")); } t.elems.iter().collect() }
                (Pat::Wild(_), true) => vec![],
                (_, true) => return Err(self.err(&arm.pat, "unsupported pattern for a tuple scrutinee")),
                (p, false) => vec![p],
            };
            let mut tests = vec![];
            let mut binds = vec![];
            for (p, (sv, sty)) in pats.iter().zip(scr.iter()) {
                self.pat_test(p, sv, sty, &mut tests, &mut binds)?;
            }
            let guard = arm.guard.as_ref().map(|(_, g)| &**g);
            let cond = if tests.is_empty() && guard.is_none() { None } else { Some(CondSrc::Pat { tests, guard }) };
            let body = match &*arm.body { Expr::Block(b) if b.label.is_none() => Body::Block(&b.block), x => Body::Expr(x) };
            let done = cond.is_none();
            out.push(Branch { cond, body, binds });
            if done { break; }
        }
        match out.last() {
            Some(b) if b.cond.is_none() => {}
            _ => return Err(self.err(e, "`match` without a final catch-all arm (`_` / binding without guard) is unsupported")),
        }
        if out.len() < m.arms.len() { return Err(self.err(e, "unreachable `match` arms after a catch-all")); }
        Ok((pre, out))
    }

    fn pat_test(&mut self, p: &Pat, sv: &str, sty: &RTy, tests: &mut Vec<String>, binds: &mut Vec<(String, String, RTy)>) -> Res<()> {
        match p {
            Pat::Wild(_) => Ok(()),
            Pat::Ident(pi) if pi.subpat.is_none() && pi.by_ref.is_none() => {
                let n = pi.ident.to_string();
                // a registered (and imported) constant of the scrutinee's type: an equality test
                if let Some(c) = self.world.consts.get(&(None, n.clone())).cloned() {
                    if (self.use_leafs.contains(&n) || self.use_glob || c.module == self.target.module || c.file == self.target.file) && self.lookup(&n).is_none() && c.pure && c.ty == *sty && matches!(c.ty, RTy::Int(_) | RTy::U64) {
                        self.deps.insert(c.module.clone());
                        tests.push(format!("{} = {}", sv, c.lean));
                        return Ok(());
                    }
                }
                // an identifier pattern could also be a constant / unit variant: refuse those to avoid guessing
                if self.world.consts.contains_key(&(None, n.clone())) || n.chars().next().map(|c| c.is_uppercase()).unwrap_or(false) {
                    return Err(self.err(p, "identifier pattern that looks like a constant / variant"));
                }
                binds.push((n, sv.to_string(), sty.clone()));
                Ok(())
            }
            Pat::Lit(l) => {
                let x = self.tr_expr(&Expr::Lit(l.clone()), Some(sty))?;
                if &x.ty != sty { return Err(self.err(p, "literal pattern of the wrong type")); }
                tests.push(format!("{} = {}", sv, x.a()));
                Ok(())
            }
            Pat::Range(r) => {
                let t = self.int_of(p, sty)?;
                let _ = t;
                if let Some(s) = &r.start {
                    let x = self.tr_expr(s, Some(sty))?;
                    tests.push(format!("{} ≤ {}", x.a(), sv));
                }
                if let Some(en) = &r.end {
                    let x = self.tr_expr(en, Some(sty))?;
                    match r.limits { syn::RangeLimits::HalfOpen(_) => tests.push(format!("{} < {}", sv, x.a())), syn::RangeLimits::Closed(_) => tests.push(format!("{} ≤ {}", sv, x.a())) }
                }
                Ok(())
            }
            _ => Err(self.err(p, "unsupported pattern")),
        }
    }

    /// `match (a, b) { (Some(x), None) => .., (None, None) => .., (Some(_), Some(_)) => panic!() }`: a `match` whose patterns are
    /// built from `Some(name)` / `Some(_)` / `None` / `_` only becomes a Lean `match` on the `Option` values (arms in the same
    /// order; first match wins in both languages)
    fn tr_option_match(&mut self, e: &Expr, m: &syn::ExprMatch, k: &Kont) -> Res<Vec<String>> {
        let comps: Vec<&Expr> = match strip_paren(&m.expr) { Expr::Tuple(t) => t.elems.iter().collect(), x => vec![x] };
        let is_tuple = matches!(strip_paren(&m.expr), Expr::Tuple(_));
        let mut out = vec![];
        let mut scr: Vec<(String, RTy)> = vec![];
        for c in &comps {
            let x = self.tr_expr(c, None)?;
            let inner = match &x.ty { RTy::Opt(t) => (**t).clone(), _ => return Err(self.err(e, "`Some`/`None` patterns on a value that is not an `Option`")) };
            if !x.pure { let t = self.fresh("scrutinee"); out.push(bind_line(&t, &x)); scr.push((t, inner)); } else { scr.push((x.a(), inner)); }
        }
        out.push(format!("match {} with", scr.iter().map(|s| s.0.clone()).collect::<Vec<_>>().join(", ")));
        for arm in &m.arms {
            if arm.guard.is_some() { return Err(self.err(&arm.pat, "guard on an `Option` pattern")); }
            let pats: Vec<&Pat> = match (&arm.pat, is_tuple) {
                (Pat::Tuple(t), true) => { if t.elems.len() != scr.len() { return Err(self.err(&arm.pat, "tuple pattern arity")); } t.elems.iter().collect() }
                (Pat::Wild(_), true) => vec![],
                (_, true) => return Err(self.err(&arm.pat, "unsupported pattern for a tuple scrutinee")),
                (p, false) => vec![p],
            };
            let mark = self.push_scope();
            let res = (|| -> Res<Vec<String>> {
                let mut texts = vec![];
                if pats.is_empty() { for _ in &scr { texts.push("_".to_string()); } }
                for (p, (_, inner)) in pats.iter().zip(scr.iter()) {
                    match p {
                        Pat::Wild(_) => texts.push("_".to_string()),
                        Pat::Ident(pi) if pi.ident == "None" && pi.subpat.is_none() => texts.push("none".to_string()),
                        Pat::TupleStruct(ts) if ts.qself.is_none() && ts.path.is_ident("Some") && ts.elems.len() == 1 => match &ts.elems[0] {
                            Pat::Wild(_) => texts.push("some _".to_string()),
                            Pat::Ident(pi) if pi.subpat.is_none() && pi.by_ref.is_none() && pi.mutability.is_none() => {
                                let v = self.declare(*p, &pi.ident.to_string(), inner.clone(), false, None)?;
                                texts.push(format!("some {}", v));
                            }
                            _ => return Err(self.err(*p, "unsupported pattern inside `Some(..)`")),
                        },
                        _ => return Err(self.err(*p, "unsupported pattern in a `match` on `Option` patterns")),
                    }
                }
                let body = match &*arm.body { Expr::Block(b) if b.label.is_none() => self.tr_stmts(&b.block.stmts, k)?, x => self.tr_tail(x, k)? };
                let mut lines = vec![format!("| {} => do", texts.join(", "))];
                lines.extend(indent(body, 2));
                Ok(lines)
            })();
            self.pop_scope(mark);
            out.extend(res?);
        }
        Ok(out)
    }

    fn branch_cond(&mut self, c: &CondSrc) -> Res<Ex> {
        match c {
            CondSrc::Expr(e) => {
                let x = self.tr_expr(e, Some(&RTy::Bool))?;
                if x.ty != RTy::Bool { return Err(self.err(*e, "condition is not bool")); }
                Ok(x)
            }
            CondSrc::LetSome { expr, .. } => Err(self.err(*expr, "internal: `if let` condition")),
            CondSrc::Pat { tests, guard } => {
                let mut parts: Vec<String> = tests.clone();
                let mut pure = true;
                if let Some(g) = guard {
                    let x = self.tr_expr(g, Some(&RTy::Bool))?;
                    if x.ty != RTy::Bool { return Err(self.err(*g, "guard is not bool")); }
                    if !x.pure && !tests.is_empty() { return Err(self.err(*g, "guard that can panic")); }
                    pure = x.pure;
                    parts.push(match &x.prop { Some(p) => p.clone(), None => format!("{} = true", x.a()) });
                }
                let prop = if parts.len() == 1 { parts[0].clone() } else { parts.iter().map(|p| format!("({})", p)).collect::<Vec<_>>().join(" ∧ ") };
                let mut r = Ex::pure(format!("decide ({})", prop), RTy::Bool);
                r.pure = pure;
                r.prop = Some(prop);
                Ok(r)
            }
        }
    }

    fn branch_body(&mut self, b: &Branch, k: &Kont) -> Res<Vec<String>> {
        let mark = self.push_scope();
        let r = match &b.body {
            Body::Block(bl) => self.tr_stmts(&bl.stmts, k),
            Body::Expr(e) => self.tr_tail(e, k),
            Body::Empty => self.finish(None, k),
        };
        self.pop_scope(mark);
        r
    }

    /// `if c0 then do B0 else do (if c1 then ..)`; the bindings of a pattern are visible in its guard and body
    fn emit_chain(&mut self, branches: &[Branch], idx: usize, k: &Kont, node: &Expr) -> Res<Vec<String>> {
        let b = &branches[idx];
        let mark = self.push_scope();
        for (r, l, t) in &b.binds { self.alias(r, l, t.clone()); }
        let res = (|| -> Res<Vec<String>> {
            match &b.cond {
                None => self.branch_body(b, k),
                Some(CondSrc::LetSome { expr, name }) => {
                    let sx = self.tr_expr(expr, None)?;
                    let inner = match &sx.ty { RTy::Opt(t) => (**t).clone(), _ => return Err(self.err(*expr, "`if let Some(..)` on a non-Option")) };
                    // the binding lives in the scope of the `then` block
                    self.depth += 1;
                    let v = self.declare(*expr, name, inner, false, None);
                    self.depth -= 1;
                    let v = v?;
                    if let Some(last) = self.env.last_mut() { last.depth += 0; }
                    let then_lines = self.branch_body(b, k)?;
                    Ok({
                        let mut out = vec![format!("match {} with", sx.text), format!("| some {} => do", v)];
                        out.extend(indent(then_lines, 2));
                        out.push("| none => do".to_string());
                        out
                    })
                }
                Some(c) => {
                    // a side-effecting call may be the head of the FIRST condition of a chain (it runs before the `if`)
                    if let (CondSrc::Expr(ce), 0, false) = (c, idx, matches!(k, Kont::Value(_))) { self.effect_allowed = self.effect_head_w(ce); }
                    let cx = self.branch_cond(c);
                    self.effect_allowed = None;
                    let cx = cx?;
                    let pre: Vec<String> = self.pending.drain(..).collect();
                    let then_lines = self.branch_body(b, k)?;
                    Ok({
                        let mut out = pre;
                        out.push(format!("if {} then do", cx.cond()));
                        out.extend(indent(then_lines, 2));
                        out.push("else do".to_string());
                        out
                    })
                }
            }
        })();
        self.pop_scope(mark);
        let mut out = res?;
        if b.cond.is_some() {
            if idx + 1 >= branches.len() { return Err(self.err(node, "internal: chain without final branch")); }
            let else_lines = self.emit_chain(branches, idx + 1, k, node)?;
            out.extend(indent(else_lines, 2));
        }
        Ok(out)
    }

    /// control-flow expression used for its value; returns the lines of an `Option`-valued term (a do-sequence) and the type
    pub fn tr_ctl_value(&mut self, e: &Expr, exp: Option<&RTy>) -> Res<(Vec<String>, RTy)> {
        if contains_return_expr(e) { return Err(self.err(e, "`return`/`?` inside a value expression")); }
        if !self.assigned_outer_expr(e)?.is_empty() { return Err(self.err(e, "assignment to an outer variable / mutation of `self` inside a value expression")); }
        if let Expr::Match(m) = e {
            if is_option_match(m) {
                self.value_ty.push(exp.cloned());
                let k = Kont::Value(exp.cloned());
                let r = self.tr_option_match(e, m, &k);
                let ty = self.value_ty.pop().unwrap();
                let lines = r?;
                let ty = ty.ok_or_else(|| self.err(e, "cannot determine the type of this expression"))?;
                return Ok((lines, ty));
            }
        }
        let (pre, branches) = self.branches_of(e)?;
        self.value_ty.push(exp.cloned());
        let saved_mode = self.ret_mode;
        let k = Kont::Value(exp.cloned());
        let r = self.emit_chain(&branches, 0, &k, e);
        self.ret_mode = saved_mode;
        let ty = self.value_ty.pop().unwrap();
        let mut lines = pre;
        lines.extend(r?);
        let ty = ty.ok_or_else(|| self.err(e, "cannot determine the type of this expression"))?;
        Ok((lines, ty))
    }

    /// `if`/`match`/block/loop in statement position; returns `true` if `rest` and `k` have been consumed
    fn tr_ctl_stmt(&mut self, e: &Expr, rest: &[Stmt], k: &Kont, out: &mut Vec<String>) -> Res<bool> {
        match e {
            Expr::While(w) => return self.tr_while(e, w, rest, k, out),
            Expr::ForLoop(f) => return self.tr_for(e, f, rest, k, out),
            _ => {}
        }
        if let Expr::Match(m) = e {
            if is_option_match(m) {
                if contains_return_expr(e) { return Err(self.err(e, "`return`/`?` inside a `match` on `Option` patterns")); }
                let vars = self.assigned_outer_expr(e)?;
                let kk = Kont::Yield(vars.clone());
                let lines = self.tr_option_match(e, m, &kk)?;
                out.push(format!("let {} ← (", pat_tuple(&vars)));
                let mut ls = indent(lines, 2);
                if let Some(last) = ls.last_mut() { last.push(')'); }
                out.extend(ls);
                return Ok(false);
            }
        }
        if let Expr::Match(m) = e {
            if is_result_match(m) { return self.tr_result_match_stmt(e, m, rest, k, out); }
        }
        let (pre, branches) = self.branches_of(e)?;
        out.extend(pre);
        if contains_return_expr(e) {
            // early return: the remaining statements become the continuation of every branch that falls through
            let kk = Kont::Seq { rest, k, env_len: self.env.len(), depth: self.depth };
            let lines = self.emit_chain(&branches, 0, &kk, e)?;
            out.extend(lines);
            Ok(true)
        } else {
            let vars = self.assigned_outer_expr(e)?;
            let kk = Kont::Yield(vars.clone());
            let lines = self.emit_chain(&branches, 0, &kk, e)?;
            if lines.len() == 1 {
                // unconditional block without effect on control flow
                out.push(format!("let {} ← {}", pat_tuple(&vars), lines[0]));
            } else {
                // statements before the `if` (a side-effecting call in its condition) need a `do` block
                let needs_do = !(lines[0].starts_with("if ") || lines[0].starts_with("match "));
                out.push(format!("let {} ← ({}", pat_tuple(&vars), if needs_do { "do" } else { "" }));
                let mut ls = indent(lines, 2);
                if let Some(last) = ls.last_mut() { last.push(')'); }
                out.extend(ls);
            }
            Ok(false)
        }
    }

    /// `match E { Ok(p) => A, Err(q) => B }` as a statement (`E` may be ONE side-effecting call of a translated `&mut self` method: it
    /// runs first): a Lean `match` on the `Except` value; a payload that is a packed struct value is bound as a flattened struct local
    fn tr_result_match_stmt(&mut self, e: &Expr, m: &syn::ExprMatch, rest: &[Stmt], k: &Kont, out: &mut Vec<String>) -> Res<bool> {
        self.effect_allowed = self.effect_head_w(&m.expr);
        let sx = self.tr_expr(&m.expr, None);
        self.effect_allowed = None;
        let sx = sx?;
        out.append(&mut self.pending);
        let (vt, et) = match &sx.ty { RTy::Res(t, er) => ((**t).clone(), (**er).clone()), _ => return Err(self.err(e, "`Ok`/`Err` patterns on a value that is not a `Result`")) };
        let scr = if sx.pure && sx.atomic { sx.text.clone() } else { let t = self.fresh("scrutinee"); out.push(bind_line(&t, &sx)); t };
        let has_ret = contains_return_expr(e);
        let vars = if has_ret { vec![] } else { self.assigned_outer_expr(e)? };
        let kk = if has_ret { Kont::Seq { rest, k, env_len: self.env.len(), depth: self.depth } } else { Kont::Yield(vars.clone()) };
        let mut lines = vec![format!("match {} with", scr)];
        let mut seen = (false, false);
        for arm in &m.arms {
            if arm.guard.is_some() { return Err(self.err(&arm.pat, "guard on a `Result` pattern")); }
            let (is_ok, inner) = match &arm.pat {
                Pat::TupleStruct(ts) if ts.qself.is_none() && ts.elems.len() == 1 && (ts.path.is_ident("Ok") || ts.path.is_ident("Err")) => (ts.path.is_ident("Ok"), &ts.elems[0]),
                p => return Err(self.err(p, "unsupported pattern in a `match` on `Result` patterns")),
            };
            if (is_ok && seen.0) || (!is_ok && seen.1) { return Err(self.err(&arm.pat, "duplicate `Result` pattern")); }
            if is_ok { seen.0 = true } else { seen.1 = true }
            let pty = if is_ok { &vt } else { &et };
            let mark = self.push_scope();
            let res = (|| -> Res<Vec<String>> {
                let ptext = match inner {
                    Pat::Wild(_) => "_".to_string(),
                    Pat::Ident(pi) if pi.subpat.is_none() && pi.by_ref.is_none() && pi.mutability.is_none() => match pty {
                        RTy::Packed(_, _) => self.bind_list_element(&arm.pat, &pi.ident.to_string(), pty)?,
                        RTy::Unit => "_".to_string(),
                        _ => self.declare(&arm.pat, &pi.ident.to_string(), pty.clone(), false, None)?,
                    },
                    p => return Err(self.err(p, "unsupported pattern inside `Ok(..)` / `Err(..)`")),
                };
                let body = match &*arm.body { Expr::Block(b) if b.label.is_none() => self.tr_stmts(&b.block.stmts, &kk)?, x => self.tr_tail(x, &kk)? };
                let mut ls = vec![format!("| {} {} => do", if is_ok { "Except.ok" } else { "Except.error" }, ptext)];
                ls.extend(indent(body, 2));
                Ok(ls)
            })();
            self.pop_scope(mark);
            lines.extend(res?);
        }
        if seen != (true, true) { return Err(self.err(e, "a `match` on `Result` patterns needs exactly the arms `Ok(..)` and `Err(..)`")); }
        if has_ret {
            out.extend(lines);
            Ok(true)
        } else {
            out.push(format!("let {} ← (", pat_tuple(&vars)));
            let mut ls = indent(lines, 2);
            if let Some(last) = ls.last_mut() { last.push(')'); }
            out.extend(ls);
            Ok(false)
        }
    }

    fn assign_finder(&self) -> AssignFinder {
        // functions with `&mut` struct parameters: (name, positions among the explicit arguments)
        let mut inout_fns = vec![];
        for ((_, name), info) in self.world.fns.iter() {
            if !info.inout.is_empty() {
                let has_self = info.rust_params.first().map(|s| s == "self").unwrap_or(false);
                inout_fns.push((name.clone(), info.inout.iter().map(|i| if has_self { i - 1 } else { *i }).collect()));
            }
        }
        inout_fns.sort();
        let ns = self.target.container.ns().map(|s| s.to_string());
        let mut mut_methods: Vec<(String, Vec<String>)> = self.world.fns.iter().filter(|((n, _), i)| *n == ns && !i.self_mutated.is_empty()).map(|((_, m), i)| (m.clone(), i.self_mutated.clone())).collect();
        mut_methods.sort();
        let mut all_mut_methods: Vec<((String, String), Vec<String>)> = self.world.fns.iter().filter(|((n, _), i)| n.is_some() && !i.self_mutated.is_empty()).map(|((n, m), i)| ((n.clone().unwrap(), m.clone()), i.self_mutated.clone())).collect();
        all_mut_methods.sort();
        let mut inout_methods: Vec<(String, Vec<usize>)> = self.world.fns.iter().filter(|((n, _), i)| *n == ns && n.is_some() && !i.inout.is_empty() && i.rust_params.first().map(|s| s == "self").unwrap_or(false))
            .map(|((_, m), i)| (m.clone(), i.inout.iter().map(|k| k - 1).collect())).collect();
        inout_methods.sort();
        let flat_locals: Vec<(String, String)> = self.env.iter().filter_map(|v| match (&v.ty, v.param) { (RTy::Flat(s), None) if v.rust != "self" => Some((v.rust.clone(), s.clone())), _ => None }).collect();
        AssignFinder { assigned: vec![], declared: vec![], inout_fns, mut_methods, flat_locals, all_mut_methods, inout_methods }
    }

    /// outer (already declared) mutable variables assigned inside `e`, in declaration order
    fn assigned_outer_expr(&mut self, e: &Expr) -> Res<Vec<String>> {
        let mut f = self.assign_finder();
        f.visit_expr(e);
        self.assigned_outer(e, f)
    }

    fn assigned_outer<T: syn::spanned::Spanned + quote::ToTokens>(&mut self, node: &T, f: AssignFinder) -> Res<Vec<String>> {
        let mut res: Vec<(usize, String)> = vec![];
        for n in &f.assigned {
            if f.declared.contains(n) {
                // would shadow: `declare` rejects it anyway if an outer variable of that name exists
                if self.lookup(n).is_some() { return Err(self.err(node, &format!("`{}` is both an outer variable and declared inside", n))); }
                continue;
            }
            match self.env.iter().rposition(|v| v.rust == *n) {
                Some(i) => { let lean = self.env[i].lean.clone(); if !res.iter().any(|(_, l)| *l == lean) { res.push((i, lean)); } }
                None => return Err(self.err(node, &format!("assignment to unknown variable `{}`", n))),
            }
        }
        res.sort();
        Ok(res.into_iter().map(|(_, l)| l).collect())
    }

    // ------------------------------------------------------------------ loops

    fn tr_while(&mut self, e: &Expr, w: &syn::ExprWhile, rest: &[Stmt], k: &Kont, out: &mut Vec<String>) -> Res<bool> {
        if w.label.is_some() { return Err(self.err(e, "labelled loop")); }
        if let Expr::Let(_) = &*w.cond { return Err(self.err(e, "`while let`")); }
        self.tr_loop(e, Some(&w.cond), None, &w.body, rest, k, out)
    }

    fn tr_for(&mut self, e: &Expr, f: &syn::ExprForLoop, rest: &[Stmt], k: &Kont, out: &mut Vec<String>) -> Res<bool> {
        if f.label.is_some() { return Err(self.err(e, "labelled loop")); }
        // `for &mv in moves { .. }` over a list (slice / Vec parameter or local)
        if !matches!(strip_paren(&f.expr), Expr::Range(_)) { return self.tr_for_list(e, f, rest, k, out); }
        let var = match &*f.pat { Pat::Ident(pi) if pi.subpat.is_none() && pi.by_ref.is_none() && pi.mutability.is_none() => pi.ident.to_string(), _ => return Err(self.err(e, "unsupported `for` pattern")) };
        let range = match strip_paren(&f.expr) { Expr::Range(r) if matches!(r.limits, syn::RangeLimits::HalfOpen(_)) => r, _ => return Err(self.err(e, "`for` is only supported over a half-open range `a..b`")) };
        let (start, end) = match (&range.start, &range.end) { (Some(s), Some(en)) => (&**s, &**en), _ => return Err(self.err(e, "`for` range without both bounds")) };
        // bounds are evaluated once, before the loop (two untyped literals: the type is taken from the uses of the loop variable)
        let hint = if is_untyped(start) && is_untyped(end) { self.infer_from_usage(&var, &f.body.stmts) } else { None };
        let (sx, ex) = self.operands(start, end, hint.as_ref())?;
        if sx.ty != ex.ty { return Err(self.err(e, "range bounds of different types")); }
        self.int_of(e, &sx.ty)?;
        let mark = self.push_scope();
        let r = (|| -> Res<bool> {
            let endv = self.fresh("range_end");
            out.push(bind_line(&endv, &ex));
            self.env.push(Var { rust: format!("<{}>", endv), lean: endv.clone(), ty: ex.ty.clone(), depth: self.depth, mutable: false, param: None, declared: true });
            let iv = self.declare(e, &var, sx.ty.clone(), true, None)?;
            out.push(bind_line(&iv, &sx));
            self.tr_loop(e, None, Some((iv, endv)), &f.body, rest, k, out)
        })();
        // after the loop the loop variable is out of the Rust scope (if `rest` was consumed it has been translated already)
        self.depth -= 1;
        if let Ok(false) = r { self.env.truncate(mark); }
        r
    }

    #[allow(clippy::too_many_arguments)]
    fn tr_loop(&mut self, e: &Expr, cond: Option<&Expr>, for_range: Option<(String, String)>, body: &syn::Block,
               rest: &[Stmt], k: &Kont, out: &mut Vec<String>) -> Res<bool> {
        let mut bf = BreakFinder { found: false };
        bf.visit_block(body);
        if bf.found { return Err(self.err(e, "`break`/`continue`")); }
        let has_return = contains_return_stmts(&body.stmts);
        // loop state = outer variables assigned in the body (plus the `for` variable)
        let mut af = self.assign_finder();
        af.visit_block(body);
        if let Some(c) = cond { let mut cf = self.assign_finder(); cf.visit_expr(c); if !cf.assigned.is_empty() { return Err(self.err(c, "assignment inside a loop condition")); } }
        let mut state = self.assigned_outer(e, af)?;
        if let Some((iv, _)) = &for_range {
            if state.contains(iv) { return Err(self.err(e, "assignment to the `for` variable")); }
            state.insert(0, iv.clone());
        }
        let state_tys: Vec<RTy> = state.iter().map(|s| self.env.iter().rev().find(|v| v.lean == *s).map(|v| v.ty.clone()).unwrap()).collect();

        self.loop_counter += 1;
        self.needs_fuel = true;
        let lname = format!("{}.{}_{}", self.lean_fn, if for_range.is_some() { "for" } else { "while" }, self.loop_counter);
        let outer_fuel = self.fuel_var.clone();
        let outer_mode = self.ret_mode;
        let outer_env = self.env.clone();

        // translate condition and body, recording which outer names are read
        self.used.push(Default::default());
        self.fuel_var = "fuel".to_string();
        if has_return { self.ret_mode = RetMode::Ctl; }
        let body_res = (|| -> Res<(String, Vec<String>)> {
            let cx = match (cond, &for_range) {
                (Some(c), _) => { let x = self.tr_expr(c, Some(&RTy::Bool))?; if x.ty != RTy::Bool { return Err(self.err(c, "loop condition is not bool")); } x }
                (None, Some((iv, endv))) => { self.note_use(iv); self.note_use(endv); let mut x = Ex::pure(format!("decide ({} < {})", iv, endv), RTy::Bool); x.prop = Some(format!("{} < {}", iv, endv)); x }
                _ => unreachable!(),
            };
            if !cx.pure { return Err(self.err(e, "loop condition that can panic")); }
            let kk = Kont::LoopNext { call: "<CALL>".to_string(), state: state.clone() };
            let mut lines = self.tr_block(body, &kk)?;
            if let Some((iv, _)) = &for_range {
                // the increment happens before the recursive call; `iv < end` so it cannot overflow
                for l in lines.iter_mut() {
                    if l.trim_start().starts_with("<CALL>") {
                        let pad = l.len() - l.trim_start().len();
                        *l = format!("{}let {} := {} + 1\n{}{}", " ".repeat(pad), iv, iv, " ".repeat(pad), l.trim_start());
                    }
                }
                lines = lines.into_iter().flat_map(|l| l.split('\n').map(|s| s.to_string()).collect::<Vec<_>>()).collect();
            }
            Ok((cx.cond(), lines))
        })();
        let used = self.used.pop().unwrap();
        self.fuel_var = outer_fuel.clone();
        self.ret_mode = outer_mode;
        self.env = outer_env;
        let (cond_text, body_lines) = body_res?;

        // captured = outer names read (variables visible before the loop, generated parameters) that are not state
        let mut captured: Vec<(String, RTy)> = vec![];
        let mut lps = self.lparams.clone();
        lps.sort_by_key(|p| p.key);
        for p in &lps { if used.contains(&p.name) && p.origin != Origin::Fuel && !state.contains(&p.name) { captured.push((p.name.clone(), p.ty.clone())); } }
        let mut seen: Vec<String> = captured.iter().map(|c| c.0.clone()).collect();
        let env_now = self.env.clone();
        for (i, v) in env_now.iter().enumerate() {
            if !used.contains(&v.lean) || state.contains(&v.lean) || seen.contains(&v.lean) { continue; }
            // only the innermost binding of a name is visible
            if env_now[i + 1..].iter().any(|w| w.lean == v.lean) { continue; }
            if let RTy::Flat(_) = v.ty { continue; }
            seen.push(v.lean.clone());
            captured.push((v.lean.clone(), v.ty.clone()));
        }
        for (_, t) in &captured { self.note_ty_dep(t); }
        for (n, _) in &captured { self.note_use(n); }
        for n in &state { self.note_use(n); }

        let cap_names: Vec<String> = captured.iter().map(|c| c.0.clone()).collect();
        let call_prefix = if cap_names.is_empty() { lname.clone() } else { format!("{} {}", lname, cap_names.join(" ")) };
        let ret_ty_lean = self.full_ret_lean();
        let state_ty = if state_tys.is_empty() { "Unit".to_string() } else { state_tys.iter().map(|t| t.lean_atom()).collect::<Vec<_>>().join(" × ") };
        let res_ty = if has_return { format!("Option (Ctl {} ({}))", ret_ty_lean, state_ty) } else { format!("Option ({})", state_ty) };
        let exit = if has_return { format!("pure (Ctl.next {})", tuple(&state)) } else { format!("pure {}", tuple(&state)) };

        // definition
        let mut d = vec![];
        let binders: String = captured.iter().map(|(n, t)| format!(" ({} : {})", n, t.lean())).collect();
        let arg_tys: String = state_tys.iter().map(|t| format!("{} → ", t.lean_atom())).collect();
        d.push(format!("def {}{} : Nat → {}{}", lname, binders, arg_tys, res_ty));
        let wild: String = state.iter().map(|_| ", _".to_string()).collect();
        let pats: String = state.iter().map(|s| format!(", {}", s)).collect();
        d.push(format!("  | 0{} => none", wild));
        d.push(format!("  | fuel + 1{} =>", pats));
        d.push(format!("    if {} then do", cond_text));
        let rec_call = format!("{} fuel", call_prefix);
        for l in indent(body_lines, 6) { d.push(l.replace("<CALL>", &rec_call)); }
        d.push(format!("    else {}", exit));
        let line = { use syn::spanned::Spanned; e.span().start().line };
        let doc = format!(
            "/-- {} loop of `{}` ({}:{}).  Reads: {}.  State: {}.  `none` = panic or out of fuel{}. -/",
            if for_range.is_some() { "`for`" } else { "`while`" }, self.fn_name, self.target.file, line,
            if captured.is_empty() { "nothing".to_string() } else { captured.iter().map(|(n, t)| format!("{} : {}", n, t.rust())).collect::<Vec<_>>().join(", ") },
            if state.is_empty() { "none".to_string() } else { state.iter().zip(state_tys.iter()).map(|(n, t)| format!("{} : {}", n, t.rust())).collect::<Vec<_>>().join(", ") },
            if has_return { "; `Ctl.ret r` = the function returned `r` from inside the loop, `Ctl.next s` = the loop ended" } else { "" });
        self.loops.push(LoopDef { name: lname.clone(), doc, lines: d });

        // call site
        let f = self.fuel_var.clone();
        self.note_use(&f);
        let call = format!("{} {} {}", call_prefix, self.fuel_var, state.join(" ")).trim_end().to_string();
        if has_return {
            out.push(format!("match (← {}) with", call));
            let r = Ex::atom("r", self.ret.clone());
            // (with modified `self` fields / `&mut` parameters `r` is already the complete result)
            if self.has_extra_results() { out.push(format!("| Ctl.ret r => {}", match self.ret_mode { RetMode::Direct => "pure r", RetMode::Ctl => "pure (Ctl.ret r)" })); }
            else { out.push(format!("| Ctl.ret r => {}", self.ret_line(&r))); }
            out.push(format!("| Ctl.next {} => do", pat_tuple(&state)));
            let lines = self.tr_stmts(rest, k)?;
            out.extend(indent(lines, 2));
            Ok(true)
        } else {
            out.push(format!("let {} ← {}", pat_tuple(&state), call));
            Ok(false)
        }
    }

    /// outer names read inside a generated auxiliary definition (generated parameters first, then variables in scope) that are
    /// not part of its state
    fn captured_of(&mut self, used: &std::collections::HashSet<String>, state: &[String]) -> Vec<(String, RTy)> {
        let mut captured: Vec<(String, RTy)> = vec![];
        let mut lps = self.lparams.clone();
        lps.sort_by_key(|p| p.key);
        for p in &lps { if used.contains(&p.name) && p.origin != Origin::Fuel && !state.contains(&p.name) { captured.push((p.name.clone(), p.ty.clone())); } }
        let mut seen: Vec<String> = captured.iter().map(|c| c.0.clone()).collect();
        let env_now = self.env.clone();
        for (i, v) in env_now.iter().enumerate() {
            if !used.contains(&v.lean) || state.contains(&v.lean) || seen.contains(&v.lean) { continue; }
            if env_now[i + 1..].iter().any(|w| w.lean == v.lean) { continue; }
            if let RTy::Flat(_) = v.ty { continue; }
            seen.push(v.lean.clone());
            captured.push((v.lean.clone(), v.ty.clone()));
        }
        for (_, t) in &captured { self.note_ty_dep(t); }
        for (n, _) in &captured { self.note_use(n); }
        for n in state { self.note_use(n); }
        captured
    }

    /// the pattern of a list element: a variable or a tuple of variables (`(i, x)` of `enumerate()`)
    fn bind_list_pattern<T: syn::spanned::Spanned + quote::ToTokens>(&mut self, node: &T, pat: &Pat, el: &RTy) -> Res<String> {
        let mut pat = pat;
        while let Pat::Reference(r) = pat { pat = &r.pat; }
        match (pat, el) {
            (Pat::Ident(pi), _) if pi.subpat.is_none() && pi.by_ref.is_none() && pi.mutability.is_none() => self.bind_list_element(node, &pi.ident.to_string(), el),
            (Pat::Tuple(pt), RTy::Tuple(ts)) if pt.elems.len() == ts.len() => {
                let mut parts = vec![];
                for (p, t) in pt.elems.iter().zip(ts.iter()) { parts.push(self.bind_list_pattern(node, p, t)?); }
                Ok(tuple(&parts))
            }
            (Pat::Wild(_), _) => Ok("_".to_string()),
            _ => Err(self.err(node, "unsupported loop pattern")),
        }
    }

    /// the type of an un-annotated closure parameter: the argument type (table `OPAQUE_ARGS`) of an opaque method it is passed to
    fn closure_param_type(&self, name: &str, body: &Expr) -> Option<RTy> {
        struct V<'a> { name: &'a str, hits: Vec<(String, usize)> }
        impl<'a, 'ast> Visit<'ast> for V<'a> {
            fn visit_expr_method_call(&mut self, m: &'ast syn::ExprMethodCall) {
                for (i, a) in m.args.iter().enumerate() { if path_ident(a).as_deref() == Some(self.name) { self.hits.push((m.method.to_string(), i)); } }
                syn::visit::visit_expr_method_call(self, m);
            }
        }
        let mut v = V { name, hits: vec![] };
        v.visit_expr(body);
        for (m, i) in &v.hits {
            let cands: Vec<&&str> = crate::targets::OPAQUE_ARGS.iter().filter(|(_, mm, a)| mm == m && a.len() > *i).map(|(_, _, a)| &a[*i]).collect();
            if cands.len() == 1 { if let Ok(ty) = syn::parse_str::<syn::Type>(cands[0]) { if let Ok(t) = self.resolve_type(&ty) { return Some(t); } } }
        }
        None
    }

    /// the parameter type of a local closure that the variable `name` is passed to in `stmts`
    fn closure_arg_type(&self, name: &str, stmts: &[Stmt]) -> Option<RTy> {
        struct V<'a> { name: &'a str, fns: Vec<String> }
        impl<'a, 'ast> Visit<'ast> for V<'a> {
            fn visit_expr_call(&mut self, c: &'ast syn::ExprCall) {
                if c.args.len() == 1 && path_ident(&c.args[0]).as_deref() == Some(self.name) { if let Some(f) = path_ident(&c.func) { self.fns.push(f); } }
                syn::visit::visit_expr_call(self, c);
            }
        }
        let mut v = V { name, fns: vec![] };
        for s in stmts { v.visit_stmt(s); }
        for f in &v.fns { if let Some(c) = self.local_closures.iter().rev().find(|c| c.0 == *f) { return Some(c.2.clone()); } }
        None
    }

    /// binds the element variable `var` of a list of `el`s: a packed struct value is destructured into a flattened struct
    /// local (`(mv_bits, mv_mvvlva)`), a primitive is a variable; returns the Lean pattern
    fn bind_list_element<T: syn::spanned::Spanned + quote::ToTokens>(&mut self, node: &T, var: &str, el: &RTy) -> Res<String> {
        match el {
            RTy::Packed(sn, tys) => {
                if self.lookup(var).is_some() { return Err(self.err(node, "the element variable must not shadow another variable")); }
                let decl = self.world.structs[sn].fields.clone();
                self.env.push(Var { rust: var.to_string(), lean: var.to_string(), ty: RTy::Flat(sn.clone()), depth: self.depth, mutable: false, param: None, declared: true });
                let mut names = vec![];
                for ((f, _), t) in decl.iter().zip(tys.iter()) {
                    let lean = format!("{}_{}", lean_ident(var), f);
                    // (the same element name in a disjoint scope — another `match` arm — is fine: Lean's scoping is lexical too)
                    if self.env.iter().any(|v| v.lean == lean) || self.lparams.iter().any(|p| p.name == lean) || self.lookup(&lean).is_some() { return Err(self.err(node, &format!("generated variable name `{}` clashes with another name", lean))); }
                    self.local_names.insert(lean.clone());
                    self.env.push(Var { rust: format!("{}.{}", var, f), lean: lean.clone(), ty: t.clone(), depth: self.depth, mutable: false, param: None, declared: true });
                    names.push(lean);
                }
                Ok(tuple(&names))
            }
            RTy::Int(_) | RTy::U64 | RTy::Bool | RTy::Char | RTy::Str => self.declare(node, var, el.clone(), false, None),
            _ => Err(self.err(node, "iteration over a list of this element type is unsupported")),
        }
    }

    /// `for &x in list { body }`: a definition by STRUCTURAL recursion on the list (no fuel); the loop state is the outer
    /// variables the body assigns (fields of `&mut self` included)
    fn tr_for_list(&mut self, e: &Expr, f: &syn::ExprForLoop, rest: &[Stmt], k: &Kont, out: &mut Vec<String>) -> Res<bool> {
        self.tr_list_loop(e, &f.pat, &f.expr, &f.body, false, rest, k, out)
    }

    /// `ITER.for_each(|pat| { body })` as a statement: the same as `for pat in ITER { body }` (a `return` inside the closure would
    /// only end the current item: unsupported)
    fn tr_for_each(&mut self, e: &Expr, mc: &syn::ExprMethodCall, rest: &[Stmt], k: &Kont, out: &mut Vec<String>) -> Res<bool> {
        if mc.args.len() != 1 || mc.turbofish.is_some() { return Err(self.err(e, "`for_each` takes one closure")); }
        let cl = match &mc.args[0] { Expr::Closure(c) if c.inputs.len() == 1 && c.capture.is_none() && c.asyncness.is_none() => c, _ => return Err(self.err(e, "`for_each` argument is not a plain closure")) };
        let body = match strip_paren(&cl.body) { Expr::Block(b) if b.label.is_none() => &b.block, _ => return Err(self.err(e, "`for_each` closure body must be a block")) };
        if contains_return_stmts(&body.stmts) { return Err(self.err(e, "`return`/`?` inside a `for_each` closure")); }
        self.tr_list_loop(e, &cl.inputs[0], &mc.receiver, body, true, rest, k, out)
    }

    #[allow(clippy::too_many_arguments)]
    fn tr_list_loop(&mut self, e: &Expr, pat0: &Pat, iter: &Expr, fbody: &syn::Block, is_closure: bool, rest: &[Stmt], k: &Kont, out: &mut Vec<String>) -> Res<bool> {
        struct F<'a> { body: &'a syn::Block }
        let f = F { body: fbody };
        let mut pat = pat0;
        while let Pat::Reference(r) = pat { pat = &r.pat; }
        let mut bf = BreakFinder { found: false };
        bf.visit_block(&f.body);
        if bf.found { return Err(self.err(e, "`break`/`continue`")); }
        let has_return = !is_closure && contains_return_stmts(&f.body.stmts);
        // `for x in [a, b]` over an array literal of untyped integers: the element type is the parameter type of a local closure `x` is passed to
        let hint = match (strip_paren(iter), pat) {
            (Expr::Array(_), Pat::Ident(pi)) => self.closure_arg_type(&pi.ident.to_string(), &f.body.stmts).map(|t| RTy::VecList(Box::new(t))),
            _ => None,
        };
        let lx = self.tr_expr(iter, hint.as_ref())?;
        let el = match &lx.ty { RTy::VecList(el) | RTy::Iter(el) => (**el).clone(), _ => return Err(self.err(e, "`for` over something that is neither a range nor a list / iterator")) };
        // (an iterator expression is evaluated once, before the loop)
        let lx = if lx.pure && lx.atomic { lx } else {
            let t = self.fresh("items");
            let lty = RTy::VecList(Box::new(el.clone()));
            self.note_ty_dep(&lty);
            out.push(match &lx.m { Some(m) => format!("let {} : {} ← {}", t, lty.lean(), m), None => format!("let {} : {} := {}", t, lty.lean(), lx.text) });
            self.env.push(Var { rust: format!("<{}>", t), lean: t.clone(), ty: lty.clone(), depth: self.depth, mutable: false, param: None, declared: true });
            Ex::atom(t, lty)
        };
        let mut af = self.assign_finder();
        af.visit_block(&f.body);
        let state = self.assigned_outer(e, af)?;
        let state_tys: Vec<RTy> = state.iter().map(|s| self.env.iter().rev().find(|v| v.lean == *s).map(|v| v.ty.clone()).unwrap()).collect();
        self.loop_counter += 1;
        let lname = format!("{}.for_{}", self.lean_fn, self.loop_counter);
        let outer_mode = self.ret_mode;
        let outer_env = self.env.clone();
        self.used.push(Default::default());
        if has_return { self.ret_mode = RetMode::Ctl; }
        let mark = self.push_scope();
        let body_res = (|| -> Res<(String, Vec<String>)> {
            let pat_text = self.bind_list_pattern(e, pat, &el)?;
            let kk = Kont::LoopNext { call: "<CALL>".to_string(), state: state.clone() };
            let lines = self.tr_block(&f.body, &kk)?;
            Ok((pat_text, lines))
        })();
        self.pop_scope(mark);
        let used = self.used.pop().unwrap();
        self.ret_mode = outer_mode;
        // (the element type of a `Vec::new()` local becomes known at its first `push`, possibly inside the loop body)
        let mut outer_env = outer_env;
        for (i, v) in outer_env.iter_mut().enumerate() {
            if v.ty == RTy::VecList(Box::new(RTy::Infer)) { if let Some(w) = self.env.get(i) { if w.lean == v.lean && w.ty != v.ty { v.ty = w.ty.clone(); } } }
        }
        self.env = outer_env;
        let state_tys: Vec<RTy> = state.iter().map(|s| self.env.iter().rev().find(|v| v.lean == *s).map(|v| v.ty.clone()).unwrap()).collect();
        let (pat_text, body_lines) = body_res?;
        let mut captured = self.captured_of(&used, &state);
        // a call in the body that needs loop fuel (a translated function with `while` loops): the fuel of the enclosing function is read
        if used.contains(&self.fuel_var) && !captured.iter().any(|c| c.0 == self.fuel_var) {
            captured.push((self.fuel_var.clone(), RTy::Opaque("Nat".to_string())));
            self.needs_fuel = true;
            let f = self.fuel_var.clone();
            self.note_use(&f);
        }
        let cap_names: Vec<String> = captured.iter().map(|c| c.0.clone()).collect();
        let call_prefix = if cap_names.is_empty() { lname.clone() } else { format!("{} {}", lname, cap_names.join(" ")) };
        let ret_ty_lean = self.full_ret_lean();
        let state_ty = if state_tys.is_empty() { "Unit".to_string() } else { state_tys.iter().map(|t| t.lean_atom()).collect::<Vec<_>>().join(" × ") };
        let res_ty = if has_return { format!("Option (Ctl {} ({}))", ret_ty_lean, state_ty) } else { format!("Option ({})", state_ty) };
        let exit = if has_return { format!("pure (Ctl.next {})", tuple(&state)) } else { format!("pure {}", tuple(&state)) };
        let restv = self.fresh("rest");
        let mut d = vec![];
        let binders: String = captured.iter().map(|(n, t)| format!(" ({} : {})", n, t.lean())).collect();
        let arg_tys: String = state_tys.iter().map(|t| format!("{} → ", t.lean_atom())).collect();
        let list_ty = RTy::VecList(Box::new(el.clone()));
        self.note_ty_dep(&list_ty);
        d.push(format!("def {}{} : {} → {}{}", lname, binders, list_ty.lean_atom(), arg_tys, res_ty));
        let pats: String = state.iter().map(|s| format!(", {}", s)).collect();
        d.push(format!("  | []{} => {}", pats, exit));
        d.push(format!("  | {} :: {}{} => do", pat_text, restv, pats));
        let rec_call = format!("{} {}", call_prefix, restv);
        for l in indent(body_lines, 4) { d.push(l.replace("<CALL>", &rec_call)); }
        let line = { use syn::spanned::Spanned; e.span().start().line };
        let doc = format!(
            "/-- `for` loop of `{}` over a list ({}:{}), by structural recursion on the list.  Reads: {}.  State: {}.  `none` = panic{}. -/",
            self.fn_name, self.target.file, line,
            if captured.is_empty() { "nothing".to_string() } else { captured.iter().map(|(n, t)| format!("{} : {}", n, t.rust())).collect::<Vec<_>>().join(", ") },
            if state.is_empty() { "none".to_string() } else { state.iter().zip(state_tys.iter()).map(|(n, t)| format!("{} : {}", n, t.rust())).collect::<Vec<_>>().join(", ") },
            if has_return { "; `Ctl.ret r` = the function returned (`r` = its complete result) from inside the loop, `Ctl.next s` = the loop ended" } else { "" });
        self.loops.push(LoopDef { name: lname.clone(), doc, lines: d });
        let call = format!("{} {} {}", call_prefix, lx.a(), state.join(" ")).trim_end().to_string();
        if has_return {
            out.push(format!("match (← {}) with", call));
            let r = Ex::atom("r", self.ret.clone());
            if self.has_extra_results() { out.push(format!("| Ctl.ret r => {}", match self.ret_mode { RetMode::Direct => "pure r", RetMode::Ctl => "pure (Ctl.ret r)" })); }
            else { out.push(format!("| Ctl.ret r => {}", self.ret_line(&r))); }
            out.push(format!("| Ctl.next {} => do", pat_tuple(&state)));
            let lines = self.tr_stmts(rest, k)?;
            out.extend(indent(lines, 2));
            Ok(true)
        } else {
            out.push(format!("let {} ← {}", pat_tuple(&state), call));
            Ok(false)
        }
    }

    /// `SRC.into_iter().filter(|&x| self.m(x)).collect()` where `m` is a translated `&mut self` method returning `bool`:
    /// a definition by structural recursion on the list that threads the fields `m` modifies through the calls, in list
    /// order (`filter` is lazy: the predicate runs once per element, in order, when `collect` drives the iterator).
    /// Returns the statements to emit first and the collected list.
    pub fn try_filter_collect(&mut self, e: &Expr) -> Res<Option<(Vec<String>, Ex)>> {
        let collect = match strip_paren(e) { Expr::MethodCall(m) if m.method == "collect" && m.args.is_empty() && m.turbofish.is_none() => m, _ => return Ok(None) };
        let filter = match strip_paren(&collect.receiver) { Expr::MethodCall(m) if m.method == "filter" && m.args.len() == 1 => m, _ => return Ok(None) };
        let iter = match strip_paren(&filter.receiver) { Expr::MethodCall(m) if (m.method == "into_iter" || m.method == "iter") && m.args.is_empty() => m, _ => return Ok(None) };
        let cl = match &filter.args[0] { Expr::Closure(c) if c.inputs.len() == 1 && c.capture.is_none() && c.asyncness.is_none() => c, _ => return Ok(None) };
        let call = match strip_paren(&cl.body) { Expr::MethodCall(m) if path_ident(&m.receiver).as_deref() == Some("self") => m, _ => return Ok(None) };
        let ns = self.target.container.ns().map(|s| s.to_string());
        let info = match self.world.fns.get(&(ns, call.method.to_string())).cloned() { Some(i) if !i.self_mutated.is_empty() && i.ret == RTy::Bool && i.inout.is_empty() => i, _ => return Ok(None) };
        if self.ret_mode != RetMode::Direct || !self.loop_stack_empty() { return Err(self.err(e, "a filter with a `&mut self` predicate inside a loop is unsupported")); }
        let mut pat = &cl.inputs[0];
        while let Pat::Reference(r) = pat { pat = &r.pat; }
        let var = match pat { Pat::Ident(pi) if pi.subpat.is_none() && pi.by_ref.is_none() && pi.mutability.is_none() => pi.ident.to_string(), _ => return Err(self.err(e, "unsupported closure parameter pattern")) };
        let mut pre = vec![];
        let sx = self.tr_expr(&iter.receiver, None)?;
        let el = match &sx.ty { RTy::VecList(el) => (**el).clone(), _ => return Err(self.err(e, "`filter(..).collect()` on something that is not a list")) };
        if sx.ty != self.ret && !matches!(self.value_ty.last(), Some(_)) { /* the collected list has the type of the source */ }
        let srcv = self.fresh("source");
        pre.push(bind_line(&srcv, &sx));
        // state = the fields the predicate modifies
        let mut state = vec![];
        for f in &info.self_mutated { let v = self.self_field_var(e, f)?; state.push(v.lean); }
        let state_tys: Vec<RTy> = state.iter().map(|s| self.env.iter().rev().find(|v| v.lean == *s).map(|v| v.ty.clone()).unwrap()).collect();
        self.loop_counter += 1;
        let lname = format!("{}.filter_{}", self.lean_fn, self.loop_counter);
        let outer_env = self.env.clone();
        self.used.push(Default::default());
        let mark = self.push_scope();
        let body_res = (|| -> Res<(String, String)> {
            let pat_text = self.bind_list_element(e, &var, &el)?;
            let args: Vec<&Expr> = call.args.iter().collect();
            self.in_call_stmt = true;
            let x = self.call_translated_pub(e, &info, Some(&call.receiver), &args);
            self.in_call_stmt = false;
            let x = x?;
            let m = x.m.clone().ok_or_else(|| self.err(e, "internal: call is not monadic"))?;
            Ok((pat_text, m))
        })();
        self.pop_scope(mark);
        let used = self.used.pop().unwrap();
        self.env = outer_env;
        let (pat_text, call_text) = body_res?;
        let captured = self.captured_of(&used, &state);
        let cap_names: Vec<String> = captured.iter().map(|c| c.0.clone()).collect();
        let call_prefix = if cap_names.is_empty() { lname.clone() } else { format!("{} {}", lname, cap_names.join(" ")) };
        let list_ty = RTy::VecList(Box::new(el.clone()));
        self.note_ty_dep(&list_ty);
        let binders: String = captured.iter().map(|(n, t)| format!(" ({} : {})", n, t.lean())).collect();
        let arg_tys: String = state_tys.iter().map(|t| format!("{} → ", t.lean_atom())).collect();
        let res_parts: Vec<String> = std::iter::once(list_ty.lean_atom()).chain(state_tys.iter().map(|t| t.lean_atom())).collect();
        let pats: String = state.iter().map(|s| format!(", {}", s)).collect();
        let (restv, keepv, outv) = (self.fresh("rest"), self.fresh("keep"), self.fresh("out"));
        let with_state = |first: &str| -> String { let mut v = vec![first.to_string()]; v.extend(state.iter().cloned()); tuple(&v) };
        let mut d = vec![];
        d.push(format!("def {}{} : {} → {}Option ({})", lname, binders, list_ty.lean_atom(), arg_tys, res_parts.join(" × ")));
        d.push(format!("  | []{} => pure {}", pats, with_state("[]")));
        d.push(format!("  | {} :: {}{} => do", pat_text, restv, pats));
        d.push(format!("    let {} ← {}", with_state(&keepv), call_text));
        d.push(format!("    let {} ← {} {} {}", with_state(&outv), call_prefix, restv, state.join(" ")));
        d.push(format!("    pure {}", with_state(&format!("if {} then {} :: {} else {}", keepv, pat_text, outv, outv))));
        let line = { use syn::spanned::Spanned; e.span().start().line };
        let doc = format!(
            "/-- `.filter(|{}| self.{}(..)).collect()` of `{}` ({}:{}), by structural recursion on the list; the predicate modifies `self`: the fields are threaded through the calls in list order.  Reads: {}.  State: {}.  `none` = panic. -/",
            var, call.method, self.fn_name, self.target.file, line,
            if captured.is_empty() { "nothing".to_string() } else { captured.iter().map(|(n, t)| format!("{} : {}", n, t.rust())).collect::<Vec<_>>().join(", ") },
            state.iter().zip(state_tys.iter()).map(|(n, t)| format!("{} : {}", n, t.rust())).collect::<Vec<_>>().join(", "));
        self.loops.push(LoopDef { name: lname.clone(), doc, lines: d });
        let resv = self.fresh("collected");
        pre.push(format!("let {} ← {} {} {}", with_state(&resv), call_prefix, srcv, state.join(" ")));
        Ok(Some((pre, Ex::atom(resv, list_ty))))
    }

    /// `let x = SRC.into_iter().find(|y| P).ok_or_else(|| ERR)?;`: the search is a definition by structural recursion on the
    /// list (`P` is evaluated on the elements in order until it holds, like the Rust: a panic in `P` after the hit cannot happen);
    /// `None` returns `Err(ERR)` from the function
    fn try_find_or_err(&mut self, l: &syn::Local, name: &str, mutable: bool, e: &Expr, rest: &[Stmt], k: &Kont, out: &mut Vec<String>) -> Res<Option<bool>> {
        let ooe = match strip_paren(e) { Expr::MethodCall(m) if m.method == "ok_or_else" && m.args.len() == 1 => m, _ => return Ok(None) };
        let find = match strip_paren(&ooe.receiver) { Expr::MethodCall(m) if m.method == "find" && m.args.len() == 1 => m, _ => return Ok(None) };
        let iter = match strip_paren(&find.receiver) { Expr::MethodCall(m) if (m.method == "into_iter" || m.method == "iter") && m.args.is_empty() => m, _ => return Ok(None) };
        let cl = match &find.args[0] { Expr::Closure(c) if c.inputs.len() == 1 && c.capture.is_none() && c.asyncness.is_none() => c, _ => return Ok(None) };
        let ecl = match &ooe.args[0] { Expr::Closure(c) if c.inputs.is_empty() && c.asyncness.is_none() => c, _ => return Ok(None) };
        if mutable { return Err(self.err(l, "`mut` binding of a found struct value")); }
        if self.ret_mode != RetMode::Direct || !self.loop_stack_empty() { return Err(self.err(e, "`find(..).ok_or_else(..)?` inside a loop is unsupported")); }
        let (ok_ty, err_ty) = match &self.ret { RTy::Res(t, er) => ((**t).clone(), (**er).clone()), _ => return Err(self.err(e, "`?` in a function that does not return `Result`")) };
        let _ = ok_ty;
        let mut pat = &cl.inputs[0];
        while let Pat::Reference(r) = pat { pat = &r.pat; }
        let var = match pat { Pat::Ident(pi) if pi.subpat.is_none() && pi.by_ref.is_none() && pi.mutability.is_none() => pi.ident.to_string(), _ => return Err(self.err(e, "unsupported closure parameter pattern")) };
        let sx = self.tr_expr(&iter.receiver, None)?;
        if !self.pending.is_empty() { return Err(self.err(e, "side effects in the source of `find`")); }
        let el = match &sx.ty { RTy::VecList(el) => (**el).clone(), _ => return Err(self.err(e, "`find(..)` on something that is not a list")) };
        let srcv = self.fresh("source");
        out.push(bind_line(&srcv, &sx));
        self.loop_counter += 1;
        let lname = format!("{}.find_{}", self.lean_fn, self.loop_counter);
        let outer_env = self.env.clone();
        self.used.push(Default::default());
        let mark = self.push_scope();
        let body_res = (|| -> Res<(String, Ex)> {
            let pat_text = self.bind_list_element(e, &var, &el)?;
            if contains_return_expr(&cl.body) { return Err(self.err(e, "`return`/`?` inside the predicate of `find`")); }
            let x = self.tr_expr(&cl.body, Some(&RTy::Bool))?;
            if x.ty != RTy::Bool { return Err(self.err(e, "the predicate of `find` is not bool")); }
            if !self.pending.is_empty() { return Err(self.err(e, "side effects in the predicate of `find`")); }
            Ok((pat_text, x))
        })();
        self.pop_scope(mark);
        let used = self.used.pop().unwrap();
        self.env = outer_env;
        let (pat_text, px) = body_res?;
        let captured = self.captured_of(&used, &[]);
        let cap_names: Vec<String> = captured.iter().map(|c| c.0.clone()).collect();
        let call_prefix = if cap_names.is_empty() { lname.clone() } else { format!("{} {}", lname, cap_names.join(" ")) };
        let list_ty = RTy::VecList(Box::new(el.clone()));
        self.note_ty_dep(&list_ty);
        let binders: String = captured.iter().map(|(n, t)| format!(" ({} : {})", n, t.lean())).collect();
        let (restv, hitv) = (self.fresh("rest"), self.fresh("hit"));
        let mut d = vec![];
        d.push(format!("def {}{} : {} → Option (Option {})", lname, binders, list_ty.lean_atom(), el.lean_atom()));
        d.push("  | [] => pure none".to_string());
        d.push(format!("  | {} :: {} => do", pat_text, restv));
        d.push(format!("    {}", bind_line(&hitv, &px)));
        d.push(format!("    if {} then pure (some {}) else {} {}", hitv, pat_text, call_prefix, restv));
        let line = { use syn::spanned::Spanned; e.span().start().line };
        let doc = format!(
            "/-- `.find(|{}| ..)` of `{}` ({}:{}), by structural recursion on the list: the first element the predicate holds for (the predicate is not evaluated on later elements).  Reads: {}.  `none` = panic. -/",
            var, self.fn_name, self.target.file, line,
            if captured.is_empty() { "nothing".to_string() } else { captured.iter().map(|(n, t)| format!("{} : {}", n, t.rust())).collect::<Vec<_>>().join(", ") });
        self.loops.push(LoopDef { name: lname.clone(), doc, lines: d });
        let foundv = self.fresh("found");
        out.push(format!("let {} : Option {} ← {} {}", foundv, el.lean_atom(), call_prefix, srcv));
        // the error value
        let ex = self.tr_expr(&ecl.body, Some(&err_ty))?;
        if ex.ty != err_ty || !ex.pure || !self.pending.is_empty() { return Err(self.err(e, "the error value of `ok_or_else` must be a value of the function's error type that cannot panic")); }
        let err_line = self.ret_line(&Ex::atom(format!("(Except.error {})", ex.a()), self.ret.clone()));
        out.push(format!("match {} with", foundv));
        out.push(format!("| none => {}", err_line));
        let mark = self.push_scope();
        let bound = match &el {
            RTy::Packed(_, _) => self.bind_list_element(l, name, &el),
            _ => self.declare(l, name, el.clone(), false, None),
        };
        let r = match bound {
            Ok(pt) => { out.push(format!("| some {} => do", pt)); self.tr_stmts(rest, k) }
            Err(x) => Err(x),
        };
        self.pop_scope(mark);
        out.extend(indent(r?, 2));
        Ok(Some(true))
    }

    // ------------------------------------------------------------------ method-call statements (list-mode Vec fields)

    fn tr_method_stmt(&mut self, e: &Expr, mc: &syn::ExprMethodCall, out: &mut Vec<String>) -> Res<()> {
        let method = mc.method.to_string();
        let args: Vec<&Expr> = mc.args.iter().collect();
        // `self.make(mv);`: a translated `&mut self` method of the same type; the fields it modifies are rebound
        if path_ident(&mc.receiver).as_deref() == Some("self") {
            let ns = self.target.container.ns().map(|s| s.to_string());
            if let Some(info) = self.world.fns.get(&(ns, method.clone())).cloned() {
                if !info.self_mutated.is_empty() {
                    if !info.inout.is_empty() { return Err(self.err(e, "method with both `&mut self` and `&mut` struct parameters")); }
                    let mut names = vec![];
                    if info.ret != RTy::Unit { names.push("_".to_string()); }
                    for f in &info.self_mutated { let v = self.self_field_var(e, f)?; names.push(v.lean); }
                    self.in_call_stmt = true;
                    let x = self.call_translated_pub(e, &info, Some(&mc.receiver), &args);
                    self.in_call_stmt = false;
                    let x = x?;
                    let m = x.m.clone().ok_or_else(|| self.err(e, "internal: call is not monadic"))?;
                    out.push(format!("let {} ← {}", pat_tuple(&names), m));
                    return Ok(());
                }
            }
        }
        if path_ident(&mc.receiver).as_deref() == Some("self") {
            // `self.make_move(result, ..);`: a translated method with `&mut` struct / list parameters (they are rebound)
            let ns = self.target.container.ns().map(|s| s.to_string());
            if let Some(info) = self.world.fns.get(&(ns, method.clone())) {
                if !info.inout.is_empty() && info.self_mutated.is_empty() { return self.tr_call_stmt(e, out); }
            }
        }
        if let Some(xn) = path_ident(&mc.receiver) {
            if let Some(xv) = self.lookup(&xn).cloned() {
                // `mv.set_x(args);` on a flattened struct local: the field variables the method modifies are rebound
                if let (RTy::Flat(sn), None) = (&xv.ty, xv.param) {
                    let info = self.world.fns.get(&(Some(sn.clone()), method.clone())).cloned().ok_or_else(|| self.err(e, &format!("method `{}` of `{}` is not registered for translation", method, sn)))?;
                    if info.self_mutated.is_empty() || !info.inout.is_empty() { return Err(self.err(e, "method-call statement on a struct local that modifies no field")); }
                    let mut names = vec![];
                    if info.ret != RTy::Unit { names.push("_".to_string()); }
                    for f in &info.self_mutated {
                        let v = self.lookup(&format!("{}.{}", xn, f)).cloned().ok_or_else(|| self.err(e, "unknown field of a flattened struct local"))?;
                        if !v.mutable { return Err(self.err(e, "`&mut self` method on an immutable struct local")); }
                        names.push(v.lean);
                    }
                    self.in_call_stmt = true;
                    let x = self.call_translated_pub(e, &info, Some(&mc.receiver), &args);
                    self.in_call_stmt = false;
                    let x = x?;
                    let m = x.m.clone().ok_or_else(|| self.err(e, "internal: call is not monadic"))?;
                    out.push(format!("let {} ← {}", pat_tuple(&names), m));
                    return Ok(());
                }
                // `s.push(c);` / `s.push_str(&t);` on a mutable local string
                if let (RTy::Str, true) = (&xv.ty, method == "push" || method == "push_str") {
                    if !xv.mutable || xv.param.is_some() { return Err(self.err(e, "`push` on a string that is not a mutable local")); }
                    if args.len() != 1 { return Err(self.err(e, "wrong number of arguments")); }
                    let want = if method == "push" { RTy::Char } else { RTy::Str };
                    // (an `if` / `match` argument with a panicking condition is bound first)
                    let x = match strip_paren(args[0]) {
                        a @ (Expr::If(_) | Expr::Match(_)) => {
                            let (lines, ty) = self.tr_ctl_value(a, Some(&want))?;
                            match compress(&lines) {
                                Some(t) => Ex::pure(t, ty),
                                None => {
                                    let t = self.fresh("pushed");
                                    out.push(format!("let {} : {} ← (", t, ty.lean()));
                                    let mut ls = indent(lines, 2);
                                    if let Some(last) = ls.last_mut() { last.push(')'); }
                                    out.extend(ls);
                                    Ex::atom(t, ty)
                                }
                            }
                        }
                        a => self.tr_expr(a, Some(&want))?,
                    };
                    if x.ty != want { return Err(self.err(e, &format!("`{}` of {} onto a string", method, x.ty.rust()))); }
                    self.note_use(&xv.lean);
                    let rhs = if method == "push" { format!("{} ++ [{}]", xv.lean, x.text) } else { format!("{} ++ {}", xv.lean, x.a()) };
                    match &x.m { _ if x.pure => out.push(format!("let {} : List Char := {}", xv.lean, rhs)), _ => { let t = self.fresh("pushed"); out.push(bind_line(&t, &x)); out.push(format!("let {} : List Char := {} ++ {}", xv.lean, xv.lean, if method == "push" { format!("[{}]", t) } else { t })); } }
                    return Ok(());
                }
                // `v.push(x);` on a `Vec::new()` local whose element type is not known yet, `x` a flattened struct local: a list of packed values
                let mut xv = xv;
                if xv.ty == RTy::VecList(Box::new(RTy::Infer)) && method == "push" && args.len() == 1 && xv.param.is_none() {
                    if let Some(an) = path_ident(args[0]) {
                        if let Some((RTy::Flat(sn), None)) = self.lookup(&an).map(|v| (v.ty.clone(), v.param)) {
                            let lt = RTy::VecList(Box::new(self.packed_type(&sn).map_err(|m| self.err(e, &m))?));
                            for v in self.env.iter_mut() { if v.lean == xv.lean && v.ty == xv.ty { v.ty = lt.clone(); } }
                            xv.ty = lt;
                        }
                    }
                }
                // `result.push(x);` on a list of packed struct values (local / `&mut` parameter)
                if let (true, "push") = (crate::is_packed_list(&xv.ty), method.as_str()) {
                    if !xv.mutable { return Err(self.err(e, "`push` on an immutable list")); }
                    if args.len() != 1 { return Err(self.err(e, "wrong number of arguments")); }
                    let el = match &xv.ty { RTy::VecList(el) => (**el).clone(), _ => unreachable!() };
                    let x = self.tr_expr(args[0], Some(&el))?;
                    if x.ty != el { return Err(self.err(e, &format!("`push` of {} onto a list of {}", x.ty.rust(), el.rust()))); }
                    self.note_use(&xv.lean);
                    out.push(format!("let {} : {} := {} ++ [{}]", xv.lean, xv.ty.lean(), xv.lean, x.text));
                    return Ok(());
                }
            }
        }
        let recv = self.tr_expr(&mc.receiver, None)?;
        if matches!(recv.ty, RTy::HashMap(_, _) | RTy::VecDeque(_)) {
            // `self.map.remove(&k);` etc.: the returned value is dropped
            self.effect_allowed = Some(mc as *const _);
            let r = self.tr_effect_call(e, mc, true);
            self.effect_allowed = None;
            r?;
            out.append(&mut self.pending);
            return Ok(());
        }
        match (&recv.ty, method.as_str()) {
            (RTy::VecList(el), "resize") => {
                if args.len() != 2 { return Err(self.err(e, "wrong number of arguments")); }
                let n = self.tr_expr(args[0], Some(&RTy::Int(IntTy::Usize)))?;
                let d = self.tr_expr(args[1], Some(el))?;
                if n.ty != RTy::Int(IntTy::Usize) || d.ty != **el { return Err(self.err(e, "argument types")); }
                let name = recv.text.clone();
                self.mark_self_assigned(e, &name)?;
                out.push(format!("let {} := vecResize {} {} {}", name, recv.a(), n.a(), d.a()));
                Ok(())
            }
            (RTy::VecList(_), "clear") if args.is_empty() => {
                let name = recv.text.clone();
                self.mark_self_assigned(e, &name)?;
                out.push(format!("let {} : {} := []", name, recv.ty.lean()));
                Ok(())
            }
            _ => Err(self.err(e, &format!("method-call statement `{}` on {} is not in the mapping table", method, recv.ty.rust()))),
        }
    }

    /// a `&mut self` field (generated parameter) is modified: it becomes part of the result
    pub fn mark_self_assigned(&mut self, e: &Expr, name: &str) -> Res<()> {
        let ok = self.lparams.iter().any(|p| p.name == name && matches!(p.origin, Origin::ParamField(0, _)));
        if !ok || self.rust_params.first().map(|p| p.0.as_str()) != Some("self") { return Err(self.err(e, "mutation of something that is not a field of `self`")); }
        if self.ret_mode != RetMode::Direct || !self.loop_stack_empty() { return Err(self.err(e, "mutation of a `self` field inside a loop is unsupported")); }
        if !self.self_mutated.contains(&name.to_string()) { return Err(self.err(e, "internal: mutated field not found by the pre-scan")); }
        Ok(())
    }

    pub fn loop_stack_empty(&self) -> bool { self.used.is_empty() }

    /// the mutable variable that stands for the field `f` of `&mut self`
    pub fn self_field_var(&mut self, e: &Expr, f: &str) -> Res<Var> {
        let v = self.lookup(&format!("self.{}", f)).cloned().ok_or_else(|| self.err(e, "mutation of a field of `self` that the pre-scan did not find (or `self` is not `&mut`)"))?;
        // (inside a loop the field variables the body modifies are part of the loop state: `assigned_outer`)
        Ok(v)
    }

    /// `self.f.m(args)` for a side-effecting method `m` of the mapping table (`HashMap::insert/remove/clear`,
    /// `VecDeque::push_back/pop_front/clear`): the statement that rebinds the field goes to `self.pending`, the result is
    /// the returned value.  Only allowed where the caller has set `effect_allowed` (evaluation order).
    pub fn tr_effect_call(&mut self, e: &Expr, mc: &syn::ExprMethodCall, discard: bool) -> Res<Ex> {
        if self.effect_allowed != Some(mc as *const _) {
            return Err(self.err(e, "side-effecting call in an unsupported position (supported: a statement of its own, or the head of the method chain that is a whole `let` initialiser / first `if` condition)"));
        }
        self.effect_allowed = None;
        let method = mc.method.to_string();
        let f = self_field(&mc.receiver).ok_or_else(|| self.err(e, "side-effecting call on something that is not a field of `self`"))?;
        let v = self.self_field_var(e, &f)?;
        let args: Vec<&Expr> = mc.args.iter().collect();
        let mut xs = vec![];
        let want: Vec<RTy> = match (&v.ty, method.as_str()) {
            (RTy::HashMap(k, val), "insert") => vec![(**k).clone(), (**val).clone()],
            (RTy::HashMap(k, _), "remove") => vec![(**k).clone()],
            (RTy::HashMap(_, _), "clear") | (RTy::VecDeque(_), "clear") | (RTy::VecDeque(_), "pop_front") => vec![],
            (RTy::VecDeque(t), "push_back") => vec![(**t).clone()],
            _ => return Err(self.err(e, &format!("method `{}` on {} is not in the mapping table", method, v.ty.rust()))),
        };
        if want.len() != args.len() { return Err(self.err(e, "wrong number of arguments")); }
        for (a, w) in args.iter().zip(want.iter()) {
            let x = self.tr_expr(a, Some(w))?;
            if !x.ty.compat(w) { return Err(self.err(e, &format!("argument of type {} where {} is expected", x.ty.rust(), w.rust()))); }
            xs.push(x.a());
        }
        self.note_use(&v.lean);
        let (fun, ret): (&str, Option<RTy>) = match (&v.ty, method.as_str()) {
            (RTy::HashMap(_, val), "insert") => ("hmInsert", Some(RTy::Opt(val.clone()))),
            (RTy::HashMap(_, val), "remove") => ("hmRemove", Some(RTy::Opt(val.clone()))),
            (RTy::HashMap(_, _), "clear") => ("hmClear", None),
            (RTy::VecDeque(_), "clear") => ("vdClear", None),
            (RTy::VecDeque(t), "pop_front") => ("vdPopFront", Some(RTy::Opt(t.clone()))),
            (RTy::VecDeque(_), "push_back") => ("vdPushBack", None),
            _ => unreachable!(),
        };
        let call = format!("{} {} {}", fun, v.lean, xs.join(" ")).trim_end().to_string();
        match ret {
            None => { self.pending.push(format!("let {} := {}", v.lean, call)); Ok(Ex::atom("()", RTy::Unit)) }
            Some(t) => {
                let r = if discard { "_".to_string() } else { self.fresh("r") };
                self.pending.push(format!("let ({}, {}) := {}", v.lean, r, call));
                Ok(Ex::atom(r, t))
            }
        }
    }
}

/// an expression made of integer literals without suffix only (through `if`/`else` and blocks)
pub fn all_untyped(e: &Expr) -> bool {
    fn tail(b: &syn::Block) -> bool { matches!(b.stmts.as_slice(), [Stmt::Expr(x, None)] if all_untyped(x)) }
    match e {
        Expr::If(i) => !matches!(&*i.cond, Expr::Let(_)) && tail(&i.then_branch) && match &i.else_branch { Some((_, eb)) => all_untyped(eb), None => false },
        Expr::Block(b) => b.label.is_none() && tail(&b.block),
        Expr::Paren(p) => all_untyped(&p.expr),
        _ => is_untyped(e),
    }
}

/// the value expressions of the branches of an `if` / block (the expression itself otherwise)
pub fn branch_tails(e: &Expr) -> Vec<&Expr> {
    fn tail(b: &syn::Block) -> Vec<&Expr> { match b.stmts.as_slice() { [Stmt::Expr(x, None)] => branch_tails(x), _ => vec![] } }
    match e {
        Expr::If(i) if !matches!(&*i.cond, Expr::Let(_)) => { let mut v = tail(&i.then_branch); if let Some((_, eb)) = &i.else_branch { v.extend(branch_tails(eb)); } v }
        Expr::Block(b) if b.label.is_none() => tail(&b.block),
        Expr::Paren(p) => branch_tails(&p.expr),
        _ => vec![e],
    }
}

/// operands the variable `name` is combined with by an arithmetic / comparison / bit operator
struct UsageFinder { name: String, others: Vec<Expr>, call_args: Vec<(Option<String>, String, usize)> }
impl<'ast> Visit<'ast> for UsageFinder {
    fn visit_expr_binary(&mut self, b: &'ast syn::ExprBinary) {
        let ok = !matches!(b.op, BinOp::And(_) | BinOp::Or(_) | BinOp::Shl(_) | BinOp::Shr(_) | BinOp::ShlAssign(_) | BinOp::ShrAssign(_));
        if ok {
            let is_name = |x: &Expr| matches!(strip_paren(x), Expr::Path(p) if p.path.is_ident(&self.name));
            if is_name(&b.left) { self.others.push((*b.right).clone()); }
            if is_name(&b.right) { self.others.push((*b.left).clone()); }
        }
        syn::visit::visit_expr_binary(self, b);
    }
    fn visit_expr_call(&mut self, c: &'ast syn::ExprCall) {
        // `f(.., name, ..)`: recorded as the pseudo operand `f::<i>` (resolved against the registered functions)
        if let Expr::Path(p) = &*c.func {
            if let Some(last) = p.path.segments.last() {
                let ns = if p.path.segments.len() == 2 { Some(p.path.segments[0].ident.to_string()) } else { None };
                for (i, a) in c.args.iter().enumerate() {
                    if matches!(strip_paren(a), Expr::Path(q) if q.path.is_ident(&self.name)) { self.call_args.push((ns.clone(), last.ident.to_string(), i)); }
                }
            }
        }
        syn::visit::visit_expr_call(self, c);
    }
    fn visit_expr_closure(&mut self, _: &'ast syn::ExprClosure) {}
}

impl<'w> FnTr<'w> {
    /// the type of the first typed operand (variable, constant, cast) the variable `name` is combined with in `stmts`;
    /// only a HINT for untyped literals: every use is type-checked when it is translated
    pub fn infer_from_usage(&self, name: &str, stmts: &[Stmt]) -> Option<RTy> {
        let mut f = UsageFinder { name: name.to_string(), others: vec![], call_args: vec![] };
        for s in stmts { f.visit_stmt(s); }
        for o in &f.others {
            let t = match strip_paren(o) {
                Expr::Path(_) => match path_ident(o) {
                    Some(n) if n != name => match self.lookup(&n) {
                        Some(v) => Some(v.ty.clone()),
                        None => self.world.consts.get(&(None, n.clone())).map(|c| c.ty.clone()),
                    },
                    _ => None,
                },
                Expr::Cast(c) => self.resolve_type(&c.ty).ok(),
                // `values[i]` of a list / array variable: its element type
                Expr::Index(ix) => match path_ident(&ix.expr).and_then(|n| self.lookup(&n).map(|v| v.ty.clone())) {
                    Some(RTy::VecList(el)) | Some(RTy::VecFn(el)) => Some((*el).clone()),
                    _ => None,
                },
                _ => None,
            };
            if let Some(t) = t { if matches!(t, RTy::Int(_) | RTy::U64) { return Some(t); } }
        }
        // an argument of a registered free function: the type of that parameter
        for (ns, fname, i) in &f.call_args {
            // `char::from_digit(name, 10)` takes a `u32`
            if ns.as_deref() == Some("char") && fname == "from_digit" && *i == 0 { return Some(RTy::Int(IntTy::U32)); }
            let ns = if ns.as_deref() == Some("Self") { self.target.container.ns().map(|s| s.to_string()) } else { ns.clone() };
            if let Some(info) = self.world.fns.get(&(ns, fname.clone())) {
                if info.rust_params.first().map(|s| s == "self").unwrap_or(false) { continue; }
                if let Some(p) = info.params.iter().find(|p| p.origin == Origin::Param(*i)) { if matches!(p.ty, RTy::Int(_) | RTy::U64) { return Some(p.ty.clone()); } }
            }
        }
        None
    }

    /// `match E { P1 => x.m1_ref(), .., _ => panic!() }` where every arm is a place method (`What::PlaceFn`) of the same mutable
    /// struct local `x` or `panic!()`: (x, its struct)
    pub fn place_match(&self, e: &Expr) -> Option<(String, String)> {
        let m = match strip_paren(e) { Expr::Match(m) => m, _ => return None };
        let mut found: Option<(String, String)> = None;
        for arm in &m.arms {
            match strip_paren(&arm.body) {
                Expr::Macro(mm) if mm.mac.path.is_ident("panic") || mm.mac.path.is_ident("unreachable") => {}
                Expr::MethodCall(mc) => {
                    let x = match strip_paren(&mc.receiver) { Expr::Path(p) => p.path.get_ident().map(|i| i.to_string())?, _ => return None };
                    let v = self.lookup(&x)?;
                    let sn = match &v.ty { RTy::Struct(sn) if v.mutable => sn.clone(), _ => return None };
                    if !self.world.places.contains_key(&(Some(sn.clone()), mc.method.to_string())) { return None; }
                    match &found { None => found = Some((x, sn)), Some((fx, _)) if *fx == x => {} _ => return None }
                }
                _ => return None,
            }
        }
        found
    }

    /// the struct a literal `S { .. }` builds if `S` is a registered struct whose values are FLATTENED in this function
    pub fn flat_struct_of_literal(&self, sl: &syn::ExprStruct) -> Option<String> {
        if sl.qself.is_some() || sl.rest.is_some() || sl.path.segments.len() != 1 { return None; }
        let n = sl.path.segments[0].ident.to_string();
        let si = self.world.structs.get(&n)?;
        if Some(&n) == self.self_struct.as_ref() { return None; }
        let flat = si.lean_module.is_none() || (self.bits && !si.bits);
        if flat { Some(n) } else { None }
    }

    /// `let [mut] x = S { f1: e1, .. };` for a flattened struct `S`: the variables `x_f1`, .. (declaration order; the
    /// initialisers must not panic, so their evaluation order does not matter)
    fn tr_let_flat_struct(&mut self, l: &syn::Local, name: &str, mutable: bool, sl: &syn::ExprStruct, sn: &str, out: &mut Vec<String>) -> Res<()> {
        let decl = self.world.structs[sn].fields.clone();
        if self.lookup(name).is_some() { return Err(self.err(l, "a flattened struct local must not shadow another variable")); }
        let mut vals: Vec<(String, Ex)> = vec![];
        for fv in &sl.fields {
            let fname = match &fv.member { syn::Member::Named(i) => i.to_string(), _ => return Err(self.err(l, "tuple struct literal")) };
            let fty = decl.iter().find(|(n, _)| *n == fname).map(|(_, t)| t.clone()).ok_or_else(|| self.err(l, "unknown field"))?;
            let fty = self.resolve_field_type(&fty, sn).map_err(|m| self.err(l, &m))?;
            let x = self.tr_expr(&fv.expr, Some(&fty))?;
            if x.ty != fty { return Err(self.err(l, &format!("field `{}`: expected {}, found {}", fname, fty.rust(), x.ty.rust()))); }
            if !x.pure { return Err(self.err(l, "struct literal with a panicking field initialiser (bind it with `let` first)")); }
            if vals.iter().any(|(n, _)| *n == fname) { return Err(self.err(l, "field given twice")); }
            vals.push((fname, x));
        }
        if vals.len() != decl.len() { return Err(self.err(l, "wrong number of fields")); }
        self.env.push(Var { rust: name.to_string(), lean: name.to_string(), ty: RTy::Flat(sn.to_string()), depth: self.depth, mutable, param: None, declared: true });
        for (f, _) in &decl {
            let x = &vals.iter().find(|(m, _)| m == f).unwrap().1;
            let lean = format!("{}_{}", lean_ident(name), f);
            if self.local_names.contains(&lean) || self.lparams.iter().any(|p| p.name == lean) || self.lookup(&lean).is_some() { return Err(self.err(l, &format!("generated variable name `{}` clashes with another name", lean))); }
            self.local_names.insert(lean.clone());
            self.env.push(Var { rust: format!("{}.{}", name, f), lean: lean.clone(), ty: x.ty.clone(), depth: self.depth, mutable, param: None, declared: true });
            out.push(bind_line(&lean, x));
        }
        Ok(())
    }

    /// the packed value (tuple of the field variables) of the flattened struct local `name`
    pub fn pack_flat_local(&mut self, name: &str, sn: &str) -> Option<Ex> {
        let decl = self.world.structs.get(sn)?.fields.clone();
        let mut parts = vec![];
        let mut tys = vec![];
        for (f, _) in &decl {
            let v = self.lookup(&format!("{}.{}", name, f))?.clone();
            self.note_use(&v.lean);
            parts.push(v.lean);
            tys.push(v.ty);
        }
        Some(Ex::atom(tuple(&parts), RTy::Packed(sn.to_string(), tys)))
    }
}

fn out_pre() -> Vec<String> { vec![] }

/// a `match` with at least one `Some(..)` / `None` pattern
/// do all arms have the form `Ok(..)` / `Err(..)`?
pub fn is_result_match(m: &syn::ExprMatch) -> bool {
    !m.arms.is_empty() && m.arms.iter().all(|a| matches!(&a.pat, Pat::TupleStruct(ts) if ts.qself.is_none() && (ts.path.is_ident("Ok") || ts.path.is_ident("Err"))))
}

pub fn is_option_match(m: &syn::ExprMatch) -> bool {
    fn has(p: &Pat) -> bool {
        match p {
            Pat::Tuple(t) => t.elems.iter().any(has),
            Pat::Ident(pi) => pi.ident == "None",
            Pat::TupleStruct(ts) => ts.path.is_ident("Some"),
            _ => false,
        }
    }
    m.arms.iter().any(|a| has(&a.pat))
}

/// `if C { &mut a } else { &mut b }` with plain variables `a`, `b`: (C, a, b)
pub fn cond_mut_borrow(e: &Expr) -> Option<(&Expr, String, String)> {
    fn single(b: &syn::Block) -> Option<String> {
        match b.stmts.as_slice() {
            [Stmt::Expr(Expr::Reference(r), None)] if r.mutability.is_some() => match strip_paren(&r.expr) { Expr::Path(p) => p.path.get_ident().map(|i| i.to_string()), _ => None },
            _ => None,
        }
    }
    match strip_paren(e) {
        Expr::If(i) if !matches!(&*i.cond, Expr::Let(_)) => {
            let a = single(&i.then_branch)?;
            let b = match &i.else_branch { Some((_, eb)) => match &**eb { Expr::Block(bl) if bl.label.is_none() => single(&bl.block)?, _ => return None }, None => return None };
            Some((&i.cond, a, b))
        }
        _ => None,
    }
}

pub fn strip_paren(e: &Expr) -> &Expr {
    match e { Expr::Paren(p) => strip_paren(&p.expr), Expr::Group(p) => strip_paren(&p.expr), _ => e }
}

pub fn tuple(vars: &[String]) -> String {
    match vars.len() { 0 => "()".to_string(), 1 => vars[0].clone(), _ => format!("({})", vars.join(", ")) }
}
pub fn pat_tuple(vars: &[String]) -> String {
    match vars.len() { 0 => "()".to_string(), 1 => vars[0].clone(), _ => format!("({})", vars.join(", ")) }
}

/// `let v := e` / `let v ← m`
pub fn bind_line(v: &str, x: &Ex) -> String {
    match &x.m {
        Some(m) => format!("let {} : {} ← {}", v, x.ty.lean(), m),
        None => format!("let {} : {} := {}", v, x.ty.lean(), x.text),
    }
}
