//! rs2lean: translate selected small pure functions of the inkayaku Rust sources into Lean 4 definitions.
//!
//! usage: rs2lean <repo root> <out dir> [--override <repo-relative file>=<path>]...
//!
//! The set of translated items is the table `TARGETS` in `targets.rs`.  Everything outside the supported subset is a
//! hard error (exit code 1) naming file, line, function and construct.
//!
//!     cd /verif/translator && cargo build --offline
//!     target/debug/rs2lean /repo /verif/lean/Inkayaku/Gen/Rs
//!     cd /verif/lean && lake build Inkayaku.Props.Translated      (the equivalence proofs)
//!
//! * `targets.rs`  what is translated, which structs are flattened into parameters, which types are opaque
//! * `prelude.rs`  fixed text of `Prelude.lean` (machine-integer semantics, mapping-table functions) + semantics doc
//! * `expr.rs`, `calls.rs`, `stmt.rs`  expressions, calls / method mapping tables, statements and loops
//! * `../mutation_check.sh`  edits scratch copies of the Rust files and checks that the proofs then fail

#![allow(dead_code)]

mod calls;
mod monadic;
mod expr;
mod prelude;
mod stmt;
mod targets;
mod tr;
mod types;
mod world;

use std::collections::{BTreeMap, HashMap, HashSet};
use std::path::PathBuf;

use quote::ToTokens;
use syn::spanned::Spanned;

use crate::stmt::Kont;
use crate::tr::*;
use crate::types::RTy;
use crate::world::*;

struct ModuleOut {
    deps: HashSet<String>,
    sources: Vec<String>,
    items: Vec<String>,
}

fn main() {
    let args: Vec<String> = std::env::args().collect();
    if args.len() < 3 {
        eprintln!("usage: rs2lean <repo root> <out dir> [--override <repo-relative file>=<path>]...");
        std::process::exit(2);
    }
    let mut overrides = HashMap::new();
    let mut i = 3;
    while i < args.len() {
        if args[i] == "--override" && i + 1 < args.len() {
            match args[i + 1].split_once('=') {
                Some((rel, p)) => { overrides.insert(rel.to_string(), PathBuf::from(p)); }
                None => { eprintln!("rs2lean: bad --override argument `{}`", args[i + 1]); std::process::exit(2); }
            }
            i += 2;
        } else {
            eprintln!("rs2lean: unknown argument `{}`", args[i]);
            std::process::exit(2);
        }
    }
    match run(PathBuf::from(&args[1]), PathBuf::from(&args[2]), overrides) {
        Ok((n, failed)) => {
            println!("rs2lean: {} Lean files written to {}", n, args[2]);
            if !failed.is_empty() {
                // keep going: a target outside the supported subset fails ITS module (and the modules that need it); the other
                // modules are still regenerated, so that only the properties that depend on a failed module lose their tie
                for (m, e) in &failed { eprintln!("rs2lean: FAILED module {}: {}", m, e); }
                std::process::exit(3);
            }
        }
        Err(e) => { eprintln!("rs2lean: ERROR: {}", e); std::process::exit(1); }
    }
}

fn run(root: PathBuf, out_dir: PathBuf, overrides: HashMap<String, PathBuf>) -> Res<(usize, Vec<(String, String)>)> {
    for rel in overrides.keys() {
        let known = targets::TARGETS.iter().any(|t| t.file == rel) || targets::FLAT_STRUCTS.iter().any(|(_, f)| f == rel) || targets::ALIAS_FILES.contains(&rel.as_str()) || rel == monadic::PGN.file;
        if !known { return Err(format!("--override {}: no target reads this file", rel)); }
    }
    let mut world = World {
        root, overrides, files: HashMap::new(), aliases: HashMap::new(), raw_aliases: HashMap::new(), structs: HashMap::new(), enums: HashMap::new(),
        consts: HashMap::new(), fns: HashMap::new(), borrows: HashMap::new(), places: HashMap::new(), opaque_types: targets::OPAQUE_TYPES.iter().map(|s| s.to_string()).collect(),
    };
    // type aliases
    for rel in targets::ALIAS_FILES {
        world.load(rel)?;
        let items = world.file(rel).items.clone();
        for it in items {
            if let syn::Item::Type(t) = it {
                if !t.generics.params.is_empty() { continue; }
                let mut prim = false;
                if let Ok(ty) = resolve_type(&world, &t.ty, None) {
                    if matches!(ty, RTy::Int(_) | RTy::Bool | RTy::Char) {
                        prim = true;
                        if world.aliases.insert(t.ident.to_string(), ty).is_some() {
                            return Err(format!("{}: type alias `{}` defined twice", world.path_of(rel).display(), t.ident));
                        }
                    }
                }
                if !prim {
                    if world.raw_aliases.insert(t.ident.to_string(), (*t.ty).clone()).is_some() {
                        return Err(format!("{}: type alias `{}` defined twice", world.path_of(rel).display(), t.ident));
                    }
                }
            }
        }
    }
    // flattened structs
    for (name, rel) in targets::FLAT_STRUCTS {
        world.load(rel)?;
        let (s, dd, generics) = find_struct(&world, rel, name, true)?;
        world.structs.insert(name.to_string(), StructInfo { file: rel.to_string(), fields: s, generics, derives_default: dd, lean_module: None, bits: false });
    }

    let mut modules: BTreeMap<String, ModuleOut> = BTreeMap::new();
    let mut order: Vec<String> = vec![];
    let mut failed: Vec<(String, String)> = vec![];
    for t in targets::TARGETS {
        if failed.iter().any(|(m, _)| m == t.module) { continue; }
        if let Err(e) = world.load(t.file) { failed.push((t.module.to_string(), e)); continue; }
        if !modules.contains_key(t.module) {
            order.push(t.module.to_string());
            modules.insert(t.module.to_string(), ModuleOut { deps: HashSet::new(), sources: vec![], items: vec![] });
        }
        let (text, deps) = match translate_target(&mut world, t) {
            Ok(x) => x,
            Err(e) => { failed.push((t.module.to_string(), e)); continue; }
        };
        if let Some(d) = deps.iter().find(|d| failed.iter().any(|(m, _)| m == *d)) {
            failed.push((t.module.to_string(), format!("depends on the failed module `{}`", d)));
            continue;
        }
        let m = modules.get_mut(t.module).unwrap();
        if !m.sources.contains(&t.file.to_string()) { m.sources.push(t.file.to_string()); }
        m.deps.extend(deps);
        if !text.is_empty() { m.items.push(text); }
    }

    std::fs::create_dir_all(&out_dir).map_err(|e| format!("{}: {}", out_dir.display(), e))?;
    let header = |title: &str, sources: &[String]| -> String {
        let mut h = String::new();
        h.push_str("/-\nGENERATED FILE — do not edit.  Regenerated from the CURRENT Rust sources by /verif/translator:\n");
        h.push_str("    rs2lean <repo root> <out dir>\n");
        h.push_str(&format!("{}\n", title));
        if !sources.is_empty() { h.push_str(&format!("Rust sources: {}\n", sources.join(", "))); }
        h
    };
    let mut n = 0;
    {
        let mut s = header("Run-time library of the translated definitions.", &[]);
        s.push('\n');
        s.push_str(prelude::SEMANTICS_DOC);
        s.push_str("\n-/\n");
        s.push_str(prelude::PRELUDE);
        write(&out_dir.join("Prelude.lean"), &s)?;
        n += 1;
    }
    for name in &order {
        if failed.iter().any(|(m, _)| m == name) { continue; }      // the previous file stays
        let m = &modules[name];
        let mut s = header(&format!("Module `{}`.  Semantics of the translation: see the header of `Prelude.lean`.", name), &m.sources);
        s.push_str("-/\nimport Inkayaku.Gen.Rs.Prelude\n");
        let mut deps: Vec<&String> = m.deps.iter().filter(|d| *d != name).collect();
        deps.sort();
        for d in deps {
            if order.iter().position(|x| x == d) > order.iter().position(|x| x == name) {
                return Err(format!("module `{}` depends on the later module `{}` (reorder the target table)", name, d));
            }
            s.push_str(&format!("import Inkayaku.Gen.Rs.{}\n", d));
        }
        s.push_str("\nset_option linter.unusedVariables false\n\nnamespace Inkayaku.Rs\n\n");
        if let Some((_, pre)) = targets::MODULE_PREAMBLE.iter().find(|(m, _)| m == name) { s.push_str(pre); s.push_str("\n\n"); }
        s.push_str(&m.items.join("\n\n"));
        s.push_str("\n\nend Inkayaku.Rs\n");
        write(&out_dir.join(format!("{}.lean", name)), &s)?;
        n += 1;
    }
    {
        // monadic mode: the PGN reader
        let spec = &monadic::PGN;
        match monadic::generate(&mut world, spec) {
          Err(e) => failed.push((spec.module.to_string(), e)),
          Ok(text) => {
        let mut s = header(&format!("Module `{}` (MONADIC MODE: `&mut self` methods as `do` blocks in the state monad `RsM`; see the module documentation of translator/src/monadic.rs and the header of `Prelude.lean`).", spec.module), &[spec.file.to_string()]);
        s.push('\n');
        s.push_str(monadic::SEMANTICS);
        s.push_str("\n-/\nimport Inkayaku.Gen.Rs.Prelude\n");
        s.push_str("\nset_option linter.unusedVariables false\n\nnamespace Inkayaku.Rs\n\n");
        s.push_str(&text);
        s.push_str("\n\nend Inkayaku.Rs\n");
        write(&out_dir.join(format!("{}.lean", spec.module)), &s)?;
        n += 1;
          }
        }
    }
    Ok((n, failed))
}

fn write(p: &std::path::Path, s: &str) -> Res<()> {
    // an unchanged file keeps its modification time (no needless rebuild of the Lean modules)
    if let Ok(old) = std::fs::read_to_string(p) { if old == s { return Ok(()); } }
    std::fs::write(p, s).map_err(|e| format!("{}: {}", p.display(), e))
}

fn find_struct(world: &World, rel: &str, name: &str, allow_generics: bool) -> Res<(Vec<(String, syn::Type)>, bool, Vec<String>)> {
    let mut hits = vec![];
    for it in &world.file(rel).items {
        if let syn::Item::Struct(s) = it {
            if s.ident == name {
                let mut fields = vec![];
                match &s.fields {
                    syn::Fields::Named(nf) => for f in &nf.named { fields.push((f.ident.as_ref().unwrap().to_string(), f.ty.clone())); },
                    syn::Fields::Unit => {}
                    _ => return Err(format!("{}: struct `{}`: tuple structs are unsupported", world.path_of(rel).display(), name)),
                }
                let mut dd = false;
                for a in &s.attrs { if a.path().is_ident("derive") { let _ = a.parse_nested_meta(|m| { if m.path.is_ident("Default") { dd = true; } Ok(()) }); } }
                if !s.generics.params.is_empty() && !allow_generics { return Err(format!("{}: struct `{}`: generics unsupported", world.path_of(rel).display(), name)); }
                let mut generics = vec![];
                for g in &s.generics.params {
                    match g {
                        syn::GenericParam::Type(t) => generics.push(t.ident.to_string()),
                        _ => return Err(format!("{}: struct `{}`: lifetime / const generics unsupported", world.path_of(rel).display(), name)),
                    }
                }
                hits.push((fields, dd, generics));
            }
        }
    }
    if hits.len() != 1 { return Err(format!("{}: expected exactly one `struct {}`, found {}", world.path_of(rel).display(), name, hits.len())); }
    Ok(hits.pop().unwrap())
}

/// header of the `impl` a function was found in: its generic type parameters and the arguments of the self type
#[derive(Clone, Default)]
pub struct ImplCtx { type_params: Vec<String>, self_args: Vec<syn::Type>, bad: Option<String> }

enum Found { Fn(Vec<syn::Attribute>, syn::Signature, syn::Block, ImplCtx), Const(Vec<syn::Attribute>, syn::Type, syn::Expr) }

fn impl_ctx(im: &syn::ItemImpl) -> ImplCtx {
    let mut c = ImplCtx::default();
    for g in &im.generics.params {
        match g {
            syn::GenericParam::Type(t) => c.type_params.push(t.ident.to_string()),
            _ => c.bad = Some("lifetime / const generic parameter of the impl".to_string()),
        }
    }
    if let syn::Type::Path(p) = &*im.self_ty {
        if let Some(seg) = p.path.segments.last() {
            if let syn::PathArguments::AngleBracketed(ab) = &seg.arguments {
                for a in &ab.args {
                    match a { syn::GenericArgument::Type(t) => c.self_args.push(t.clone()), _ => c.bad = Some("non-type generic argument of the impl's self type".to_string()) }
                }
            }
        }
    }
    c
}

/// attributes that do not change what the code computes
const HARMLESS_ATTRS: &[&str] = &["doc", "inline", "allow", "must_use", "warn", "deny", "expect"];

fn check_attrs(path: &str, what: &str, attrs: &[syn::Attribute]) -> Res<()> {
    for a in attrs {
        let ok = a.path().get_ident().map(|i| HARMLESS_ATTRS.contains(&i.to_string().as_str())).unwrap_or(false);
        if !ok { return Err(format!("{}:{}: {}: attribute `{}` is unsupported (conditional compilation etc. would change the meaning)", path, a.span().start().line, what, a.to_token_stream())); }
    }
    Ok(())
}

/// any attribute inside a function body (e.g. `#[cfg(..)]` on a statement) is an error
fn check_body_attrs(path: &str, what: &str, block: &syn::Block) -> Res<()> {
    use syn::visit::Visit;
    struct V { bad: Vec<syn::Attribute> }
    impl<'ast> Visit<'ast> for V { fn visit_attribute(&mut self, a: &'ast syn::Attribute) { self.bad.push(a.clone()); } }
    let mut v = V { bad: vec![] };
    v.visit_block(block);
    check_attrs(path, what, &v.bad)
}

fn type_last_ident(t: &syn::Type) -> Option<String> {
    match t { syn::Type::Path(p) => p.path.segments.last().map(|s| s.ident.to_string()), _ => None }
}

/// all definitions of `name` in the given container
fn find_items(world: &World, t: &Target) -> Vec<Found> {
    let mut hits = vec![];
    for it in &world.file(t.file).items {
        match (it, &t.container) {
            (syn::Item::Fn(f), Container::Free) if f.sig.ident == t.name => hits.push(Found::Fn(f.attrs.clone(), f.sig.clone(), (*f.block).clone(), ImplCtx::default())),
            (syn::Item::Const(c), Container::Free) if c.ident == t.name => hits.push(Found::Const(c.attrs.clone(), (*c.ty).clone(), (*c.expr).clone())),
            (syn::Item::Trait(tr), Container::Trait(n)) if tr.ident == n => {
                for ti in &tr.items {
                    match ti {
                        syn::TraitItem::Fn(f) if f.sig.ident == t.name => { if let Some(b) = &f.default { hits.push(Found::Fn(f.attrs.clone(), f.sig.clone(), b.clone(), ImplCtx::default())); } }
                        syn::TraitItem::Const(c) if c.ident == t.name => { if let Some((_, e)) = &c.default { hits.push(Found::Const(c.attrs.clone(), c.ty.clone(), e.clone())); } }
                        _ => {}
                    }
                }
            }
            (syn::Item::Impl(im), Container::Impl(n)) if im.trait_.is_none() && type_last_ident(&im.self_ty).as_deref() == Some(n) => impl_items(im, t.name, &mut hits),
            // (`ImplTrait("From<&Fen>", "Bitboard")`: a trait name with generic arguments is compared as written, without spaces)
            (syn::Item::Impl(im), Container::ImplTrait(trn, n)) if im.trait_.as_ref().and_then(|(_, p, _)| p.segments.last().map(|s| if trn.contains('<') { s.to_token_stream().to_string().replace(' ', "") } else { s.ident.to_string() })).as_deref() == Some(trn)
                && type_last_ident(&im.self_ty).as_deref() == Some(n) => impl_items(im, t.name, &mut hits),
            _ => {}
        }
    }
    hits
}

fn impl_items(im: &syn::ItemImpl, name: &str, hits: &mut Vec<Found>) {
    for ii in &im.items {
        match ii {
            syn::ImplItem::Fn(f) if f.sig.ident == name => hits.push(Found::Fn(f.attrs.clone(), f.sig.clone(), f.block.clone(), impl_ctx(im))),
            syn::ImplItem::Const(c) if c.ident == name => hits.push(Found::Const(c.attrs.clone(), c.ty.clone(), c.expr.clone())),
            _ => {}
        }
    }
}

fn use_leafs(file: &syn::File) -> (HashSet<String>, bool) {
    fn walk(t: &syn::UseTree, out: &mut HashSet<String>, glob: &mut bool) {
        match t {
            syn::UseTree::Path(p) => walk(&p.tree, out, glob),
            syn::UseTree::Name(n) => { out.insert(n.ident.to_string()); }
            syn::UseTree::Rename(r) => { out.insert(r.rename.to_string()); }
            syn::UseTree::Glob(_) => *glob = true,
            syn::UseTree::Group(g) => for x in &g.items { walk(x, out, glob); },
        }
    }
    let mut out = HashSet::new();
    let mut glob = false;
    for it in &file.items { if let syn::Item::Use(u) = it { walk(&u.tree, &mut out, &mut glob); } }
    (out, glob)
}

fn new_tr<'w>(world: &'w World, t: &'w Target, lean_fn: String) -> FnTr<'w> {
    let (leafs, glob) = use_leafs(world.file(t.file));
    let self_struct = match &t.container { Container::Impl(n) | Container::ImplTrait(_, n) if world.structs.contains_key(*n) => Some(n.to_string()), _ => None };
    FnTr {
        world, target: t, file_path: world.path_of(t.file).display().to_string(), fn_name: t.name.to_string(), lean_fn,
        env: vec![], depth: 1, lparams: vec![], ret: RTy::Unit, ret_mode: RetMode::Direct, used: vec![], loops: vec![], loop_counter: 0,
        needs_fuel: false, fuel_var: "fuel".to_string(), value_ty: vec![], deps: HashSet::new(), local_names: HashSet::new(), dup_count: 0,
        rust_params: vec![], self_struct, use_leafs: leafs, use_glob: glob, temp_counter: 0, self_mutated: vec![], poisoned: vec![],
        subst: HashMap::new(), struct_subst: HashMap::new(), pending: vec![], effect_allowed: None,
        bits: matches!(t.what, What::Fn { bits: true, .. } | What::ConstB | What::PlaceFn),
        inout: vec![], writebacks: vec![], last_inout: vec![], in_call_stmt: false,
        local_borrows: vec![], place_aliases: vec![], place_value_of: None, local_closures: vec![], struct_lit_pending_ok: false,
    }
}

/// the packed form (tuple of the primitive fields, `u64` = `UInt64`) of a registered plain-data struct
fn packed_of(world: &World, n: &str) -> Res<RTy> {
    let si = world.structs.get(n).ok_or_else(|| format!("struct `{}` is not registered", n))?;
    let mut tys = vec![];
    for (f, fty) in &si.fields {
        let t = resolve_type_s(world, fty, Some(n), &HashMap::new(), true).map_err(|m| format!("field `{}.{}`: {}", n, f, m))?;
        if !matches!(t, RTy::Int(_) | RTy::Bool | RTy::Char | RTy::U64) { return Err(format!("field `{}.{}`: only primitive fields are supported in a packed struct value", n, f)); }
        tys.push(t);
    }
    if tys.is_empty() { return Err(format!("struct `{}` has no fields", n)); }
    Ok(RTy::Packed(n.to_string(), tys))
}

fn lean_name(t: &Target) -> String {
    match t.container.ns() { Some(ns) => format!("{}.{}", ns, t.name), None => t.name.to_string() }
}

fn translate_target(world: &mut World, t: &'static Target) -> Res<(String, HashSet<String>)> {
    let path = world.path_of(t.file).display().to_string();
    match &t.what {
        What::Enum => {
            let mut hits = vec![];
            for it in &world.file(t.file).items { if let syn::Item::Enum(e) = it { if e.ident == t.name { hits.push(e.clone()); } } }
            if hits.len() != 1 { return Err(format!("{}: expected exactly one `enum {}`, found {}", path, t.name, hits.len())); }
            let e = hits.pop().unwrap();
            if !e.generics.params.is_empty() { return Err(format!("{}: enum {}: generics unsupported", path, t.name)); }
            let mut variants = vec![];
            let mut deps = HashSet::new();
            for v in &e.variants {
                if v.discriminant.is_some() { return Err(format!("{}:{}: enum {}: explicit discriminant unsupported", path, v.span().start().line, t.name)); }
                let mut fields = vec![];
                match &v.fields {
                    syn::Fields::Unit => {}
                    syn::Fields::Named(nf) => for f in &nf.named {
                        let ty = resolve_type(world, &f.ty, None).map_err(|m| format!("{}:{}: enum {}::{}: {}", path, f.span().start().line, t.name, v.ident, m))?;
                        match &ty { RTy::Int(_) | RTy::Bool | RTy::Char | RTy::Str => {} RTy::Enum(n) => { deps.insert(world.enums[n].module.clone()); } _ => return Err(format!("{}:{}: enum {}::{}: unsupported field type", path, f.span().start().line, t.name, v.ident)) }
                        fields.push((f.ident.as_ref().unwrap().to_string(), ty));
                    },
                    syn::Fields::Unnamed(uf) => for (k, f) in uf.unnamed.iter().enumerate() {
                        let ty = resolve_type(world, &f.ty, None).map_err(|m| format!("{}:{}: enum {}::{}: {}", path, f.span().start().line, t.name, v.ident, m))?;
                        // a field of a plain-data struct type (`MoveIsNotValid(Move)`): the packed value (tuple of its fields, `u64` = `UInt64`)
                        let ty = match ty { RTy::Struct(n) | RTy::Flat(n) => packed_of(world, &n).map_err(|m| format!("{}:{}: enum {}::{}: {}", path, f.span().start().line, t.name, v.ident, m))?, t => t };
                        match &ty { RTy::Int(_) | RTy::Bool | RTy::Char | RTy::Str | RTy::Packed(_, _) => {} RTy::Enum(n) => { deps.insert(world.enums[n].module.clone()); } _ => return Err(format!("{}:{}: enum {}::{}: unsupported field type", path, f.span().start().line, t.name, v.ident)) }
                        fields.push((format!("_{}", k), ty));
                    },
                }
                variants.push((v.ident.to_string(), fields));
            }
            let mut s = format!("/-- `enum {}` ({}:{}) -/\ninductive {} where\n", t.name, t.file, e.span().start().line, t.name);
            for (v, fields) in &variants {
                s.push_str(&format!("  | {}", v));
                for (f, ty) in fields { s.push_str(&format!(" ({} : {})", lean_ident(f), ty.lean())); }
                s.push('\n');
            }
            s.push_str("deriving DecidableEq, Repr");
            world.enums.insert(t.name.to_string(), EnumInfo { module: t.module.to_string(), variants });
            Ok((s, deps))
        }
        What::Struct { bits } => {
            let (fields, dd, _) = find_struct(world, t.file, t.name, false)?;
            let mut s = format!("/-- `struct {}` ({}) -/\nstructure {} where\n", t.name, t.file, t.name);
            let mut all_prim = true;
            for (f, ty) in &fields {
                let ty = resolve_type_s(world, ty, None, &HashMap::new(), *bits).map_err(|m| format!("{}: struct {}.{}: {}", path, t.name, f, m))?;
                // arrays / slices are lists (indexing is bounds-checked, like the Rust)
                let ty = match ty { RTy::VecFn(el) => RTy::VecList(el), t => t };
                let ok = match &ty { RTy::Int(_) | RTy::Bool | RTy::Char | RTy::U64 | RTy::Str | RTy::Range(_) => true, RTy::Opt(el) => matches!(**el, RTy::Range(_) | RTy::Int(_)), RTy::VecList(el) => { all_prim = false; matches!(**el, RTy::Int(_) | RTy::Bool | RTy::Char | RTy::U64) } _ => false };
                if !ok { return Err(format!("{}: struct {}.{}: only primitive fields and arrays of primitives are supported in a regenerated struct", path, t.name, f)); }
                s.push_str(&format!("  /-- `{}` -/\n  {} : {}\n", ty.rust(), lean_ident(f), ty.lean()));
            }
            s.push_str("deriving DecidableEq, Repr");
            let _ = all_prim;
            world.structs.insert(t.name.to_string(), StructInfo { file: t.file.to_string(), fields, generics: vec![], derives_default: dd, lean_module: Some(t.module.to_string()), bits: *bits });
            Ok((s, HashSet::new()))
        }
        What::NotOverridden => {
            let hits = find_items(world, t);
            if !hits.is_empty() {
                return Err(format!("{}: `{}` defines `{}` itself; the translation uses the trait default, so this override is unsupported", path, t.container.describe(), t.name));
            }
            Ok((String::new(), HashSet::new()))
        }
        What::Const | What::ConstB => {
            let mut hits = find_items(world, t);
            if hits.len() != 1 { return Err(format!("{}: expected exactly one const `{}` in {}, found {}", path, t.name, t.container.describe(), hits.len())); }
            let (ty, e) = match hits.pop().unwrap() { Found::Const(attrs, ty, e) => { check_attrs(&path, &format!("const {}", t.name), &attrs)?; (ty, e) } _ => return Err(format!("{}: `{}` is not a const", path, t.name)) };
            let lean = lean_name(t);
            let (text, info, deps) = {
                let mut tr = new_tr(world, t, lean.clone());
                let rty = tr.resolve_type(&ty)?;
                // an array constant is a list (indexing is bounds-checked)
                let rty = match rty { RTy::VecFn(el) if matches!(*el, RTy::Int(_) | RTy::U64 | RTy::Bool) => RTy::VecList(el), t => t };
                let x = tr.tr_expr(&e, Some(&rty))?;
                if x.ty != rty { return Err(tr.err(&e, "constant initialiser has the wrong type")); }
                let line = e.span().start().line;
                let src = e.to_token_stream().to_string();
                let text = if x.pure {
                    format!("/-- `const {}: {} = {}` ({}:{}) -/\ndef {} : {} := {}", t.name, rty.rust(), src, t.file, line, lean, rty.lean(), x.text)
                } else {
                    format!("/-- `const {}: {} = {}` ({}:{}); `none` would be a compile-time overflow -/\ndef {} : Option {} := {}", t.name, rty.rust(), src, t.file, line, lean, rty.lean_atom(), x.as_option_term())
                };
                (text, ConstInfo { lean: lean.clone(), module: t.module.to_string(), file: t.file.to_string(), ty: rty, pure: x.pure }, tr.deps)
            };
            world.consts.insert((t.container.ns().map(|s| s.to_string()), t.name.to_string()), info);
            Ok((text, deps))
        }
        What::MutBorrow => {
            let mut hits = find_items(world, t);
            if hits.len() != 1 { return Err(format!("{}: expected exactly one fn `{}` in {}, found {}", path, t.name, t.container.describe(), hits.len())); }
            let (sig, block) = match hits.pop().unwrap() { Found::Fn(attrs, s, b, _) => { check_attrs(&path, &format!("fn {}", t.name), &attrs)?; check_body_attrs(&path, &format!("fn {}", t.name), &b)?; (s, b) } _ => return Err(format!("{}: `{}` is not a fn", path, t.name)) };
            let bad = |m: &str| format!("{}:{}: fn {}: not of the form `if COND {{ (&mut self.a, &mut self.b) }} else {{ (&mut self.b, &mut self.a) }}` ({})", path, sig.span().start().line, t.name, m);
            let mut_self = sig.inputs.len() == 1 && matches!(sig.inputs.first(), Some(syn::FnArg::Receiver(r)) if r.reference.is_some() && r.mutability.is_some());
            if !mut_self { return Err(bad("the only parameter must be `&mut self`")); }
            let e = match block.stmts.as_slice() { [syn::Stmt::Expr(e, None)] => e, _ => return Err(bad("the body must be one expression")) };
            let i = match e { syn::Expr::If(i) => i, _ => return Err(bad("not an `if`")) };
            fn fields_of(b: &syn::Block) -> Option<Vec<String>> {
                let e = match b.stmts.as_slice() { [syn::Stmt::Expr(e, None)] => e, _ => return None };
                let t = match e { syn::Expr::Tuple(t) => t, _ => return None };
                let mut out = vec![];
                for el in &t.elems {
                    match el { syn::Expr::Reference(r) if r.mutability.is_some() => out.push(crate::stmt::self_field(&r.expr)?), _ => return None }
                }
                Some(out)
            }
            let then_fields = fields_of(&i.then_branch).ok_or_else(|| bad("then branch"))?;
            let else_fields = match &i.else_branch { Some((_, eb)) => match &**eb { syn::Expr::Block(b) => fields_of(&b.block).ok_or_else(|| bad("else branch"))?, _ => return Err(bad("else branch")) }, None => return Err(bad("no else branch")) };
            let mut a = then_fields.clone(); a.sort();
            let mut b2 = else_fields.clone(); b2.sort();
            let distinct = a.windows(2).all(|w| w[0] != w[1]);
            if a != b2 || !distinct || then_fields.is_empty() { return Err(bad("both branches must borrow the same, pairwise distinct, fields")); }
            if matches!(&*i.cond, syn::Expr::Let(_)) { return Err(bad("`if let`")); }
            world.borrows.insert((t.container.ns().map(|s| s.to_string()), t.name.to_string()), BorrowInfo { cond: (*i.cond).clone(), then_fields, else_fields });
            Ok((String::new(), HashSet::new()))
        }
        What::PlaceFn => {
            let mut hits = find_items(world, t);
            if hits.len() != 1 { return Err(format!("{}: expected exactly one fn `{}` in {}, found {}", path, t.name, t.container.describe(), hits.len())); }
            let (sig, block, ictx) = match hits.pop().unwrap() { Found::Fn(attrs, s, b, c) => { check_attrs(&path, &format!("fn {}", t.name), &attrs)?; check_body_attrs(&path, &format!("fn {}", t.name), &b)?; (s, b, c) } _ => return Err(format!("{}: `{}` is not a fn", path, t.name)) };
            let bad = |m: &str| format!("{}:{}: fn {}: not of the form `fn m(&mut self, ..) -> &mut T {{ &mut self.field[INDEX] }}` ({})", path, sig.span().start().line, t.name, m);
            let mut_self = matches!(sig.inputs.first(), Some(syn::FnArg::Receiver(r)) if r.reference.is_some() && r.mutability.is_some());
            if !mut_self { return Err(bad("no `&mut self`")); }
            match &sig.output { syn::ReturnType::Type(_, ty) => match &**ty { syn::Type::Reference(r) if r.mutability.is_some() => {} _ => return Err(bad("result is not `&mut T`")) }, _ => return Err(bad("no result")) }
            let e = match block.stmts.as_slice() { [syn::Stmt::Expr(e, None)] => e, _ => return Err(bad("the body must be one expression")) };
            let ix = match e { syn::Expr::Reference(r) if r.mutability.is_some() => match &*r.expr { syn::Expr::Index(ix) => ix, _ => return Err(bad("not an indexed place")) }, _ => return Err(bad("not `&mut ..`")) };
            let field = crate::stmt::self_field(&ix.expr).ok_or_else(|| bad("the indexed value is not a field of `self`"))?;
            // the index as a function of the remaining parameters: `fn m_index(args) -> usize { INDEX }`
            let mut isig = sig.clone();
            isig.inputs = sig.inputs.iter().skip(1).cloned().collect();
            isig.output = syn::parse_quote!(-> usize);
            let index = &ix.index;
            let iblock: syn::Block = syn::parse_quote!({ #index });
            let (text, info, deps) = translate_fn(world, t, &isig, &iblock, &ictx)?;
            world.places.insert((t.container.ns().map(|s| s.to_string()), t.name.to_string()), PlaceInfo { field, index_fn: info });
            Ok((text, deps))
        }
        What::Fn { .. } | What::ClosureFn { .. } => {
            let mut hits = find_items(world, t);
            if hits.len() != 1 { return Err(format!("{}: expected exactly one fn `{}` in {}, found {}", path, t.name, t.container.describe(), hits.len())); }
            let (sig, block, ictx) = match hits.pop().unwrap() { Found::Fn(attrs, s, b, c) => { check_attrs(&path, &format!("fn {}", t.name), &attrs)?; check_body_attrs(&path, &format!("fn {}", t.name), &b)?; (s, b, c) } _ => return Err(format!("{}: `{}` is not a fn", path, t.name)) };
            if let Some(b) = &ictx.bad { return Err(format!("{}: fn {}: {}", path, t.name, b)); }
            let (text, info, deps) = translate_fn(world, t, &sig, &block, &ictx)?;
            let key_name = match &t.what { What::ClosureFn { suffix, .. } => format!("{}_{}", t.name, suffix), _ => t.name.to_string() };
            world.fns.insert((t.container.ns().map(|s| s.to_string()), key_name), info);
            Ok((text, deps))
        }
    }
}

/// the closure passed to the (single) call of `method` in `block`
fn find_closure(tr: &FnTr, block: &syn::Block, method: &str) -> Res<syn::ExprClosure> {
    use syn::visit::Visit;
    struct V<'a> { method: &'a str, hits: Vec<syn::ExprClosure>, calls: usize }
    impl<'a, 'ast> Visit<'ast> for V<'a> {
        fn visit_expr_method_call(&mut self, m: &'ast syn::ExprMethodCall) {
            if m.method == self.method {
                self.calls += 1;
                if m.args.len() == 1 { if let syn::Expr::Closure(c) = &m.args[0] { self.hits.push(c.clone()); } }
            }
            syn::visit::visit_expr_method_call(self, m);
        }
    }
    let mut v = V { method, hits: vec![], calls: 0 };
    v.visit_block(block);
    if v.calls != 1 || v.hits.len() != 1 { return Err(tr.err(block, &format!("expected exactly one call `.{}(|x| ..)`, found {} calls / {} closures", method, v.calls, v.hits.len()))); }
    Ok(v.hits.pop().unwrap())
}

/// fields of `self` that a `&mut self` function modifies (`self.f = ..`, `self.f op= ..`, `self.f[..] = ..`,
/// `self.f.resize(..)`, `self.f.insert(..)`, ..), in order of first occurrence
fn mutated_self_fields(block: &syn::Block, borrows: &[(String, Vec<String>)]) -> Vec<String> {
    use syn::visit::Visit;
    struct V<'a> { out: Vec<String>, borrows: &'a [(String, Vec<String>)] }
    impl<'a, 'ast> Visit<'ast> for V<'a> {
        fn visit_expr_assign(&mut self, a: &'ast syn::ExprAssign) {
            if let Some(f) = crate::stmt::mutated_self_field_of_target(&a.left) { if !self.out.contains(&f) { self.out.push(f); } }
            syn::visit::visit_expr_assign(self, a);
        }
        fn visit_expr_binary(&mut self, b: &'ast syn::ExprBinary) {
            if crate::stmt::is_compound(&b.op) {
                if let Some(f) = crate::stmt::mutated_self_field_of_target(&b.left) { if !self.out.contains(&f) { self.out.push(f); } }
            }
            syn::visit::visit_expr_binary(self, b);
        }
        fn visit_expr_method_call(&mut self, m: &'ast syn::ExprMethodCall) {
            if crate::stmt::MUTATING_METHODS.contains(&m.method.to_string().as_str()) {
                if let Some(f) = crate::stmt::self_field(&m.receiver) { if !self.out.contains(&f) { self.out.push(f); } }
            }
            // `self.get_active_and_passive_mut()`: the fields it borrows mutably
            if crate::expr::path_ident(&m.receiver).as_deref() == Some("self") {
                if let Some((_, fs)) = self.borrows.iter().find(|(n, _)| *n == m.method.to_string()) {
                    for f in fs { if !self.out.contains(f) { self.out.push(f.clone()); } }
                }
            }
            syn::visit::visit_expr_method_call(self, m);
        }
    }
    let mut v = V { out: vec![], borrows };
    v.visit_block(block);
    v.out
}

/// `Vec<S>` / `&[S]` of a flattened struct `S` (bit-manipulating functions): a list of packed values
pub fn is_packed_list(t: &RTy) -> bool { matches!(t, RTy::VecList(el) if matches!(**el, RTy::Packed(_, _))) }

fn translate_fn(world: &World, t: &'static Target, sig: &syn::Signature, block: &syn::Block, ictx: &ImplCtx) -> Res<(String, FnInfo, HashSet<String>)> {
    let mut lean = match &t.what { What::ClosureFn { suffix, .. } => format!("{}_{}", lean_name(t), suffix), What::PlaceFn => format!("{}_index", lean_name(t)), _ => lean_name(t) };
    // a method named like a field of its (regenerated) struct would clash with the projection of the Lean structure
    if let Some(si) = t.container.ns().and_then(|n| world.structs.get(n)) {
        if si.lean_module.is_some() && si.fields.iter().any(|(f, _)| f == t.name) { lean.push_str("_fn"); }
    }
    let mut tr = new_tr(world, t, lean.clone());
    // generic parameters of the impl are opaque Lean type variables; the generic parameters of the self struct are
    // instantiated as the impl header says
    for p in &ictx.type_params {
        if !p.chars().all(|c| c.is_alphanumeric()) || world.structs.contains_key(p) || world.enums.contains_key(p) { return Err(tr.err(sig, &format!("unsupported generic parameter name `{}`", p))); }
        tr.subst.insert(p.clone(), RTy::Opaque(p.clone()));
    }
    if let Some(sn) = tr.self_struct.clone() {
        let gens = world.structs[&sn].generics.clone();
        if gens.len() != ictx.self_args.len() { return Err(tr.err(sig, &format!("struct `{}` has {} generic parameters but the impl header gives {}", sn, gens.len(), ictx.self_args.len()))); }
        let mut m = HashMap::new();
        for (g, a) in gens.iter().zip(ictx.self_args.iter()) { m.insert(g.clone(), tr.resolve_type(a)?); }
        tr.struct_subst.insert(sn, m);
    } else if !ictx.self_args.is_empty() && !ictx.type_params.is_empty() {
        return Err(tr.err(sig, "generic impl of a type that is not a registered struct"));
    }
    if !sig.generics.params.is_empty() { return Err(tr.err(&sig.generics, "generic function")); }
    // `unsafe fn` is accepted: every operation must still be in the mapping table, and the unchecked operations in it
    // (`get_unchecked`) are translated as CHECKED ones (`none` = undefined behaviour, to be excluded by the theorems)
    if sig.asyncness.is_some() || sig.variadic.is_some() { return Err(tr.err(sig, "async / variadic function")); }
    tr.ret = match &sig.output { syn::ReturnType::Default => RTy::Unit, syn::ReturnType::Type(_, ty) => tr.resolve_type(ty)? };
    // a constructor (`-> Self`) yields the tuple of all fields, in declaration order
    let mut ctor_fields: Vec<RTy> = vec![];
    match &tr.ret {
        RTy::Flat(n) if Some(n) == tr.self_struct.as_ref() && !sig.inputs.iter().any(|a| matches!(a, syn::FnArg::Receiver(_))) => {
            for (f, fty) in &world.structs[n].fields {
                ctor_fields.push(tr.resolve_field_type(fty, n).map_err(|m| tr.err(sig, &format!("field `{}`: {}", f, m)))?);
            }
        }
        RTy::Flat(n) => return Err(tr.err(sig, &format!("function returns the struct `{}`", n))),
        _ => {}
    }
    // parameters
    let mut mut_self = false;
    let mut inout_idx: Vec<usize> = vec![];
    let mut self_mutated_rust: Vec<String> = vec![];
    for (i, a) in sig.inputs.iter().enumerate() {
        match a {
            syn::FnArg::Receiver(r) => {
                if r.reference.is_none() { return Err(tr.err(a, "by-value `self`")); }
                mut_self = r.mutability.is_some();
                // `impl Trait for Alias` with `type Alias = [S; N]`: `self` is an ordinary (list) parameter
                if tr.self_struct.is_none() && !mut_self {
                    if let Some(raw) = t.container.ns().and_then(|n| world.raw_aliases.get(n)).cloned() {
                        let ty = tr.resolve_type(&raw)?;
                        let ty = match (ty, &t.what) { (RTy::VecFn(el), What::Fn { vec_list: true, .. }) => RTy::VecList(el), (x, _) => x };
                        if !matches!(ty, RTy::VecList(_) | RTy::VecFn(_)) { return Err(tr.err(a, "`self` of an unsupported alias type")); }
                        tr.rust_params.push(("self".to_string(), ty.clone()));
                        let l = tr.declare(a, "self", ty.clone(), false, Some(i))?;
                        tr.lparams.push(LeanParam { name: l, ty, origin: Origin::Param(i), key: (i, 0, 0) });
                        continue;
                    }
                }
                let s = tr.self_struct.clone().unwrap_or_else(|| "Self".to_string());
                tr.rust_params.push(("self".to_string(), RTy::Flat(s.clone())));
                tr.env.push(Var { rust: "self".into(), lean: "self".into(), ty: RTy::Flat(s), depth: 1, mutable: false, param: Some(i), declared: true });
            }
            syn::FnArg::Typed(pt) => {
                let (name, mutable) = match &*pt.pat {
                    syn::Pat::Ident(pi) if pi.by_ref.is_none() && pi.subpat.is_none() => (pi.ident.to_string(), pi.mutability.is_some()),
                    syn::Pat::Wild(_) => (format!("_arg{}", i), false),
                    _ => return Err(tr.err(a, "unsupported parameter pattern")),
                };
                // a parameter of an unsupported type is an error only if the body refers to it
                let mut bad: Option<String> = None;
                let ty = match tr.resolve_type(&pt.ty) { Ok(t) => t, Err(m) => { bad = Some(m); RTy::Unit } };
                let mut is_inout = false;
                if let syn::Type::Reference(r) = &*pt.ty {
                    if r.mutability.is_some() {
                        // `&mut S` for a regenerated struct: the parameter is a mutable variable, its final value is part of the result
                        // (`&mut Vec<S>` of a flattened struct `S` in a bit-manipulating function: a list of packed values)
                        if bad.is_none() && (matches!(ty, RTy::Struct(_)) || is_packed_list(&ty)) && matches!(t.what, What::Fn { .. }) { is_inout = true; } else { bad = Some("`&mut` parameter".into()); }
                    }
                }
                // a slice / array / Vec parameter of primitives (or of such lists, or of strings) in list mode: a list (indexing is bounds-checked)
                fn listify(t: RTy) -> RTy { match t { RTy::VecFn(el) | RTy::VecList(el) => RTy::VecList(Box::new(listify(*el))), t => t } }
                fn prim_list(t: &RTy) -> bool { match t { RTy::VecList(el) => matches!(**el, RTy::Int(_) | RTy::U64 | RTy::Bool | RTy::Char | RTy::Str) || prim_list(el), _ => false } }
                let ty = if bad.is_none() && !is_inout && matches!(t.what, What::Fn { vec_list: true, .. }) && matches!(ty, RTy::VecFn(_) | RTy::VecList(_)) && !is_packed_list(&ty) && prim_list(&listify(ty.clone())) { listify(ty) } else { ty };
                if bad.is_none() && matches!(ty, RTy::VecFn(_) | RTy::VecList(_) | RTy::Unit) && !is_packed_list(&ty) && !prim_list(&ty) { bad = Some(tr.err(a, "unsupported parameter type")); }
                if let Some(m) = bad {
                    tr.rust_params.push((name.clone(), RTy::Unit));
                    tr.poisoned.push((name.clone(), m));
                    continue;
                }
                tr.rust_params.push((name.clone(), ty.clone()));
                match &ty {
                    RTy::Flat(_) => tr.env.push(Var { rust: name.clone(), lean: name.clone(), ty, depth: 1, mutable: false, param: Some(i), declared: true }),
                    _ => {
                        let l = tr.declare(a, &name, ty.clone(), mutable || is_inout, Some(i))?;
                        if is_inout { tr.inout.push(l.clone()); inout_idx.push(tr.rust_params.len() - 1); }
                        tr.lparams.push(LeanParam { name: l, ty, origin: Origin::Param(i), key: (i, 0, 0) });
                    }
                }
            }
        }
    }
    if mut_self && matches!(t.what, What::Fn { .. }) {
        let sname = tr.self_struct.clone().ok_or_else(|| tr.err(sig, "`&mut self` of a type that is not a registered struct"))?;
        let ns = t.container.ns().map(|x| x.to_string());
        let mut borrows: Vec<(String, Vec<String>)> = world.borrows.iter().filter(|((n, _), _)| *n == ns).map(|((_, m), b)| (m.clone(), b.then_fields.clone())).collect();
        // `self.make(mv);`: the fields a translated `&mut self` method of the same type modifies
        for ((n, m), info) in world.fns.iter() { if *n == ns && !info.self_mutated.is_empty() { borrows.push((m.clone(), info.self_mutated.clone())); } }
        borrows.sort();
        let mut fields = mutated_self_fields(block, &borrows);
        if fields.is_empty() { return Err(tr.err(sig, "`&mut self` function in which no supported mutation of a field was found")); }
        // declaration order (independent of the order of the statements)
        let pos = |f: &String| world.structs[&sname].fields.iter().position(|(n, _)| n == f).unwrap_or(usize::MAX);
        fields.sort_by_key(pos);
        // a mutated field is a parameter (its value at entry) and a mutable variable of the body; its final value is
        // part of the result
        for f in &fields {
            let x = tr.flat_field(sig, "self", 0, &sname, f)?;
            tr.env.push(Var { rust: format!("self.{}", f), lean: x.text.clone(), ty: x.ty.clone(), depth: 1, mutable: true, param: None, declared: true });
            tr.self_mutated.push(x.text);
            self_mutated_rust.push(f.clone());
        }
    }
    // body (same scope depth as the parameters: `let x = .. x ..` may shadow a parameter)
    let lines = match &t.what {
        What::ClosureFn { method, wrapper, arg_ty, .. } => {
            let cl = find_closure(&tr, block, method)?;
            if cl.inputs.len() != 1 || cl.capture.is_some() { return Err(tr.err(&cl, "closure must have exactly one parameter and no `move`")); }
            let mut pat = &cl.inputs[0];
            while let syn::Pat::Reference(r) = pat { pat = &r.pat; }
            let pname = match pat { syn::Pat::Ident(pi) if pi.subpat.is_none() => pi.ident.to_string(), _ => return Err(tr.err(&cl, "unsupported closure parameter pattern")) };
            let aty: syn::Type = syn::parse_str(arg_ty).map_err(|_| tr.err(&cl, "bad closure argument type in the table"))?;
            let aty = tr.resolve_type(&aty)?;
            let idx = tr.rust_params.len();
            tr.rust_params.push((pname.clone(), aty.clone()));
            let l = tr.declare(&cl, &pname, aty.clone(), false, Some(idx))?;
            // the closure argument comes first
            tr.lparams.push(LeanParam { name: l, ty: aty, origin: Origin::Param(idx), key: (0, 0, 0) });
            let mut body: &syn::Expr = &cl.body;
            if let Some(w) = wrapper {
                body = match crate::stmt::strip_paren(body) {
                    syn::Expr::Call(c) if c.args.len() == 1 && crate::expr::path_ident(&c.func).as_deref() == Some(*w) => &c.args[0],
                    _ => return Err(tr.err(&cl, &format!("closure body is not `{}(..)`", w))),
                };
            }
            tr.value_ty.push(None);
            let x = tr.tr_expr(body, None)?;
            tr.value_ty.pop();
            tr.ret = x.ty.clone();
            tr.finish(Some(x), &Kont::Return)?
        }
        _ => tr.tr_stmts(&block.stmts, &Kont::Return)?,
    };
    // every mutated field must have been read as a parameter
    for f in &tr.self_mutated { if !tr.lparams.iter().any(|p| p.name == *f) { return Err(tr.err(sig, &format!("mutated field `{}` was never translated", f))); } }

    let mut params = tr.lparams.clone();
    params.sort_by_key(|p| p.key);
    if tr.needs_fuel { params.push(LeanParam { name: "fuel".into(), ty: RTy::Opaque("Nat".into()), origin: Origin::Fuel, key: (usize::MAX, 9, 0) }); }
    for p in &params { tr.note_ty_dep(&p.ty); }
    let ret = tr.ret.clone();
    tr.note_ty_dep(&ret);
    // opaque type variables
    let mut tyvars: Vec<String> = vec![];
    fn collect_opaque(t: &RTy, out: &mut Vec<String>) {
        collect_opaque_i(t, out);
    }
    fn collect_opaque_i(t: &RTy, out: &mut Vec<String>) {
        match t {
            RTy::Opaque(n) if n.chars().all(|c| c.is_alphanumeric()) && n != "Nat" => { if !out.contains(n) { out.push(n.clone()); } }
            RTy::Opaque(n) => for w in n.split(|c: char| !c.is_alphanumeric()) { if !w.is_empty() && w.chars().next().unwrap().is_uppercase() && !["Int", "Nat", "Bool", "Char", "Option", "List", "Unit", "UInt64", "HMap", "VecDeque", "Inkayaku", "Rs", "Except"].contains(&w) && !out.contains(&w.to_string()) { out.push(w.to_string()); } },
            RTy::Opt(t) | RTy::VecFn(t) | RTy::VecList(t) | RTy::VecDeque(t) => collect_opaque(t, out),
            RTy::HashMap(k, v) => { collect_opaque(k, out); collect_opaque(v, out); }
            RTy::Tuple(ts) => for t in ts { collect_opaque(t, out); },
            _ => {}
        }
    }
    for p in &params { collect_opaque(&p.ty, &mut tyvars); }
    collect_opaque(&ret, &mut tyvars);
    for t in &ctor_fields { collect_opaque(t, &mut tyvars); }
    // (names of regenerated enums / structs inside the type of an opaque function are not type variables)
    tyvars.retain(|v| !world.enums.contains_key(v) && !world.structs.contains_key(v));
    if !tr.pending.is_empty() { return Err(tr.err(sig, "internal: pending statements left")); }

    let ret_lean = if !ctor_fields.is_empty() { RTy::Tuple(ctor_fields.clone()).lean_atom() } else if tr.self_mutated.is_empty() && tr.inout.is_empty() { ret.lean_atom() } else {
        let mut parts = vec![];
        if ret != RTy::Unit { parts.push(ret.lean_atom()); }
        for f in &tr.self_mutated { parts.push(tr.lparams.iter().find(|p| p.name == *f).unwrap().ty.lean_atom()); }
        for f in &tr.inout { parts.push(tr.lparams.iter().find(|p| p.name == *f).unwrap().ty.lean_atom()); }
        if parts.len() == 1 { parts[0].clone() } else { format!("({})", parts.join(" × ")) }
    };

    let mut s = String::new();
    for l in &tr.loops {
        s.push_str(&l.doc);
        s.push('\n');
        s.push_str(&l.lines.join("\n"));
        s.push_str("\n\n");
    }
    let line = sig.span().start().line;
    let mut sig_src = sig.to_token_stream().to_string();
    sig_src = sig_src.replace(" :", ":").replace("& ", "&").replace(" ,", ",").replace(" (", "(").replace("( ", "(").replace(" )", ")").replace(" <", "<").replace("< ", "<").replace(" >", ">").replace("-> ", " -> ").replace("-  >", "->").replace("  ", " ");
    match &t.what {
        What::ClosureFn { method, wrapper, .. } => s.push_str(&format!("/-- The closure passed to `{}` ({}) inside `{}` in `{}` ({}:{}).\n", method,
            match wrapper { Some(w) => format!("its body is `{}(e)`; this is `e`", w), None => "its body".to_string() }, sig_src.trim(), t.container.describe(), t.file, line)),
        _ => s.push_str(&format!("/-- `{}` in `{}` ({}:{}).\n", sig_src.trim(), t.container.describe(), t.file, line)),
    }
    for p in &params {
        let what = match &p.origin {
            Origin::Param(i) => format!("parameter `{}: {}`", tr.rust_params[*i].0, p.ty.rust()),
            Origin::ParamField(i, f) => format!("field `{}.{}: {}`", tr.rust_params[*i].0, f, p.ty.rust()),
            Origin::ParamMethod(i, m) if *i == usize::MAX => format!("OPAQUE associated function `Self::{}`", m),
            Origin::ParamMethod(i, m) => format!("OPAQUE result of `{}.{}(..)`: {}", tr.rust_params[*i].0, m, p.ty.rust()),
            Origin::Fuel => "loop fuel (one unit per loop iteration)".to_string(),
        };
        s.push_str(&format!("* `{}` = {}\n", p.name, what));
    }
    if !ctor_fields.is_empty() {
        let sn = tr.self_struct.clone().unwrap();
        s.push_str(&format!("Result: the fields of the new `{}`: `{}`.\n", sn, world.structs[&sn].fields.iter().map(|f| f.0.clone()).collect::<Vec<_>>().join("`, `")));
    }
    if !tr.self_mutated.is_empty() {
        s.push_str(&format!("Result: {}the new value of `self.{}`.\n", if ret != RTy::Unit { "the returned value and " } else { "" }, tr.self_mutated.join("`, `self.")));
    }
    if !tr.inout.is_empty() {
        s.push_str(&format!("Result{}: the new value of the `&mut` parameter(s) `{}`.\n", if tr.self_mutated.is_empty() { "" } else { " (continued)" }, tr.inout.join("`, `")));
    }
    s.push_str("`none` = panic (or out of fuel). -/\n");
    let mut binders = String::new();
    for v in &tyvars { binders.push_str(&format!(" {{{} : Type}}", v)); }
    for p in &params { binders.push_str(&format!(" ({} : {})", p.name, p.ty.lean())); }
    s.push_str(&format!("def {}{} : Option {} := do\n", lean, binders, ret_lean));
    s.push_str(&indent(lines, 2).join("\n"));

    let info = FnInfo { lean: lean.clone(), module: t.module.to_string(), params, ret, rust_params: tr.rust_params.iter().map(|p| p.0.clone()).collect(), inout: inout_idx, self_mutated: self_mutated_rust };
    Ok((s, info, tr.deps))
}
