//! "Monadic mode": translation of an `impl` whose methods take `&mut self`, call each other, return early (`return`, `?`, `break`)
//! and mutate `self` inside loops (the PGN reader `PgnRawParser<R: Read>`).
//!
//! Every method becomes a Lean `do` block in the state monad `RsM σ` (σ = the regenerated struct; `none` = panic / out of fuel):
//! the Rust statements are transliterated one to one (`let mut`, `return`, `if`, `match`); Lean's `do` elaborator does the
//! plumbing of early returns.  A `Result` is an ordinary `Except` VALUE; `e?` is a `match` whose `Err` arm returns.  Every loop is
//! a separate definition by recursion on a counter (`Ctl.ret r` = the function returned `r` from inside the loop, `Ctl.next s` = the
//! loop ended with the loop-carried locals `s`); calls inside a loop body get the ORIGINAL fuel of the function.
//! Side-effecting calls inside an expression are hoisted into preceding `let t ← ..` statements in evaluation order; `a || b` /
//! `a && b` with a side-effecting `b` become an `if`.  Anything not listed here is an error.

use std::collections::HashMap;

use quote::ToTokens;
use syn::spanned::Spanned;
use syn::{BinOp, Expr, Pat, Stmt};

use crate::world::{Res, World};

pub struct Spec {
    pub module: &'static str,
    pub file: &'static str,
    /// the struct with `&mut self` methods (its generic parameters are opaque)
    pub state: &'static str,
    /// plain structs (regenerated) with their constructor functions `new`
    pub data: &'static [&'static str],
    pub enums: &'static [&'static str],
    /// methods of `impl<..> State<..>` in dependency order
    pub methods: &'static [&'static str],
    /// (trait, method) of `impl Trait for State`
    pub trait_methods: &'static [(&'static str, &'static str)],
}

pub const PGN: Spec = Spec {
    module: "Pgn",
    file: "pgn/src/reader.rs",
    state: "PgnRawParser",
    data: &["PgnRawAnnotatedMove", "PgnRaw"],
    enums: &["PgnRawParserError"],
    methods: &[
        "with_chunk_size", "ensure_buffer", "increment_byte", "peek_byte", "pop_byte", "skip_byte", "consume", "skip_blank_lines", "skip_blank_lines_and_spaces",
        "skip_spaces", "skip_to_next_line", "read_until", "read_token", "read_tag_name", "read_tag_value", "read_tag_pair_line", "read_tag_pairs",
        "read_braced_annotation", "read_semicolon_annotation", "read_move", "read_moves", "read_pgn",
    ],
    trait_methods: &[("Iterator", "next")],
};

/// semantics of the mode, copied into the header of the generated module
pub const SEMANTICS: &str = r#"SEMANTICS OF THE MONADIC MODE (translator/src/monadic.rs).
* The struct with the `&mut self` methods is regenerated as a Lean structure (integers = `Int`, `Vec<u8>` = `List Int`, `String` =
  `List Char`, `HashMap` = `HMap`, its generic parameter `R` = a type variable `RT`); a method is a `do` block in
  `RsM σ α := σ → Option (α × σ)` (σ = that structure): `none` = a Rust panic (overflow of `+= 1`, index out of bounds, `panic!`) or a
  loop counter running out.  `self.f` reads `(← RsM.get).f`, `self.f = e` is `RsM.set { (← RsM.get) with f := e }`; `x += n` on an integer
  field is range-checked (`chk`).
* Statements are transliterated one to one: `let [mut]`, assignment, `if`, `match`, `return e` (Lean's `do` elaborator implements the
  early return); the tail expression of the function body is `return e`.  A `Result` is an `Except` VALUE; `CALL?` is
  `match (← CALL) with | Except.ok v => pure v | Except.error e => return (Except.error e)` bound to a temporary.
* A call `self.m(args)` inside an expression is hoisted into a preceding `let t ← …` in evaluation order (a `self` field read BEFORE
  such a call in the same expression is an error); `a || b` / `a && b` whose `b` calls a method is
  `let t ← if a then pure true else do … pure b` (short circuit).
* `while C { B }`, `while let P = E { B }`, `loop { B }` are separate definitions `F.loop_k Read_read fuel <captured> : Nat → <loop-carried
  locals> → RsM σ (Ctl R S)` by recursion on the counter (`0` ↦ `none`): `Ctl.ret r` = the function returned `r` from inside the loop,
  `Ctl.next s` = the loop ended (condition false or `break`) with the loop-carried locals `s` (the locals assigned in the body).  Method
  calls inside the body get the ORIGINAL `fuel` of the function; the caller starts the counter at `fuel`.  After a `loop` without `break`
  the code is unreachable (`RsM.panic`).  Nested loops are not supported.
* `match` on an integer with literal patterns is an `if` chain (a binding catch-all is a `let`); `match` on a `Result` whose arms are
  `Ok(literal | x) [if guard]` followed by one `_` is one `match` with an `if` chain in the `Ok` arm (fall-through to the `_` arm).
* OPAQUE: `self.<field of the generic type>.read(&mut self.<buffer field>)` is the function parameter
  `Read_read : RT → List Int → Except IoErrorT Int × RT × List Int` (reader, buffer) ↦ (result, reader after the call, buffer after the
  call); what it is assumed to do is a hypothesis of the theorems (`ReadModel`, Props/Translated/PgnBuffer.lean).
* Anything else is an error naming file, line, function and construct."#;

pub const PREAMBLE: &str = r#"/-- State-passing computations that may panic (`none` = panic / out of fuel): the `&mut self` methods of the monadic mode -/
def RsM (σ α : Type) : Type := σ → Option (α × σ)

namespace RsM
variable {σ α β : Type}
@[inline] def pure' (a : α) : RsM σ α := fun s => some (a, s)
@[inline] def bind' (m : RsM σ α) (f : α → RsM σ β) : RsM σ β := fun s => match m s with | none => none | some (a, s') => f a s'
instance : Monad (RsM σ) where
  pure := pure'
  bind := bind'
/-- the whole `self` -/
def get : RsM σ σ := fun s => some (s, s)
def set (s : σ) : RsM σ Unit := fun _ => some ((), s)
/-- a panicking pure computation -/
def liftO (o : Option α) : RsM σ α := fun s => o.map (fun a => (a, s))
/-- `panic!()` / out of fuel -/
def panic : RsM σ α := fun _ => none
end RsM
"#;

struct FnSig { params: Vec<(String, syn::Type)>, ret: Option<syn::Type>, has_self: bool, fuel: bool, lean: String }

struct Gen<'w> {
    world: &'w World,
    spec: &'w Spec,
    path: String,
    fields: Vec<(String, syn::Type)>,
    generics: Vec<String>,
    /// enum -> variants (name, named fields)
    enums: HashMap<String, Vec<(String, Vec<(String, syn::Type)>)>>,
    structs: HashMap<String, Vec<(String, syn::Type)>>,
    sigs: HashMap<String, FnSig>,
    /// (struct, fn) -> lean name of plain associated functions (`new`)
    assoc: HashMap<(String, String), String>,
    // per function
    cur_fn: String,
    cur_self: String,
    cur_ret: Option<syn::Type>,
    locals: Vec<(String, Option<syn::Type>)>,
    tmp: usize,
    loops: Vec<String>,
    loop_count: usize,
    needs_fuel: bool,
    /// inside a loop body: the loop-carried variables
    in_loop: Option<Vec<String>>,
    reads_in_stmt: usize,
}

fn ind(n: usize) -> String { "  ".repeat(n) }

impl<'w> Gen<'w> {
    fn err<T: Spanned>(&self, node: &T, msg: &str) -> String {
        let s = node.span().start();
        format!("{}:{}:{}: in `{}` (monadic mode): {}", self.path, s.line, s.column + 1, self.cur_fn, msg)
    }
    fn fresh(&mut self) -> String { self.tmp += 1; format!("t{}", self.tmp) }

    fn lean_ty(&self, t: &syn::Type) -> Res<String> {
        match t {
            syn::Type::Tuple(tt) if tt.elems.is_empty() => Ok("Unit".into()),
            syn::Type::Tuple(tt) => { let v: Res<Vec<String>> = tt.elems.iter().map(|e| self.lean_ty(e)).collect(); Ok(format!("({})", v?.join(" × "))) }
            syn::Type::Reference(r) => self.lean_ty(&r.elem),
            syn::Type::Path(p) => {
                let seg = p.path.segments.last().unwrap();
                let name = seg.ident.to_string();
                let args: Vec<&syn::Type> = match &seg.arguments {
                    syn::PathArguments::AngleBracketed(a) => a.args.iter().filter_map(|g| if let syn::GenericArgument::Type(t) = g { Some(t) } else { None }).collect(),
                    _ => vec![],
                };
                match (name.as_str(), args.len()) {
                    ("u8", 0) | ("u16", 0) | ("u32", 0) | ("u64", 0) | ("usize", 0) => Ok("Int".into()),
                    ("bool", 0) => Ok("Bool".into()),
                    ("String", 0) | ("str", 0) => Ok("(List Char)".into()),
                    ("Vec", 1) => Ok(format!("(List {})", self.lean_ty(args[0])?)),
                    ("Option", 1) => Ok(format!("(Option {})", self.lean_ty(args[0])?)),
                    ("Result", 2) => Ok(format!("(Except {} {})", self.lean_ty(args[1])?, self.lean_ty(args[0])?)),
                    ("HashMap", 2) => Ok(format!("(HMap {} {})", self.lean_ty(args[0])?, self.lean_ty(args[1])?)),
                    ("Self", 0) => Ok(if self.cur_self == self.spec.state { self.state_ty() } else { self.cur_self.clone() }),
                    (n, 0) if p.path.segments.len() == 2 && p.path.segments[0].ident == "Self" && n == "Item" => Err(self.err(t, "`Self::Item` must be written out")),
                    (n, 0) if self.generics.iter().any(|g| g == n) => Ok(format!("{}T", n)),
                    (n, 0) if self.structs.contains_key(n) || self.enums.contains_key(n) => Ok(n.to_string()),
                    _ => Err(self.err(t, &format!("unsupported type `{}`", t.to_token_stream()))),
                }
            }
            _ => Err(self.err(t, &format!("unsupported type `{}`", t.to_token_stream()))),
        }
    }
    fn state_ty(&self) -> String {
        let g: Vec<String> = self.generics.iter().map(|g| format!("{}T", g)).collect();
        if g.is_empty() { self.spec.state.to_string() } else { format!("({} {})", self.spec.state, g.join(" ")) }
    }
    fn int_ty(&self, t: &syn::Type) -> Option<&'static str> {
        if let syn::Type::Path(p) = t { if let Some(i) = p.path.get_ident() { return match i.to_string().as_str() { "u8" => Some(".u8"), "u16" => Some(".u16"), "u32" => Some(".u32"), "u64" => Some(".u64"), "usize" => Some(".usize"), _ => None }; } }
        None
    }
    fn result_ok_ty(t: &syn::Type) -> Option<syn::Type> {
        if let syn::Type::Path(p) = t {
            let seg = p.path.segments.last()?;
            if seg.ident == "Result" { if let syn::PathArguments::AngleBracketed(a) = &seg.arguments { if let Some(syn::GenericArgument::Type(t)) = a.args.first() { return Some(t.clone()); } } }
        }
        None
    }
    fn lookup(&self, name: &str) -> Option<&(String, Option<syn::Type>)> { self.locals.iter().rev().find(|l| l.0 == name) }
    fn variant_of(&self, name: &str) -> Option<(String, &Vec<(String, syn::Type)>)> {
        for (e, vs) in &self.enums { for (v, f) in vs { if v == name { return Some((e.clone(), f)); } } }
        None
    }
    fn ret_wrap(&self, v: &str) -> String { if self.in_loop.is_some() { format!("return (Ctl.ret {})", v) } else { format!("return {}", v) } }
    fn loop_state_tuple(vars: &[String]) -> String { match vars.len() { 0 => "()".into(), 1 => vars[0].clone(), _ => format!("({})", vars.join(", ")) } }

    // ---------------------------------------------------------------- expressions

    fn self_field(&self, e: &Expr) -> Option<String> {
        if let Expr::Field(f) = e { if let Expr::Path(p) = &*f.base { if p.path.is_ident("self") { if let syn::Member::Named(n) = &f.member { return Some(n.to_string()); } } } }
        None
    }
    fn field_ty(&self, f: &str) -> Option<&syn::Type> { self.fields.iter().find(|x| x.0 == f).map(|x| &x.1) }

    fn lit(&self, l: &syn::ExprLit) -> Res<String> {
        match &l.lit {
            syn::Lit::Int(i) => Ok(i.base10_digits().to_string()),
            syn::Lit::Byte(b) => Ok(format!("{}", b.value())),
            syn::Lit::Bool(b) => Ok(format!("{}", b.value)),
            syn::Lit::Char(c) => Ok(format!("(Char.ofNat {})", c.value() as u32)),
            syn::Lit::Str(s) => { let cs: Vec<String> = s.value().chars().map(|c| format!("Char.ofNat {}", c as u32)).collect(); Ok(format!("([{}] : List Char)", cs.join(", "))) }
            _ => Err(self.err(l, "unsupported literal")),
        }
    }

    /// the call `self.m(args)` as an `RsM` term
    fn method_call_term(&mut self, mc: &syn::ExprMethodCall, out: &mut Vec<String>, n: usize) -> Res<Option<String>> {
        if !matches!(&*mc.receiver, Expr::Path(p) if p.path.is_ident("self")) { return Ok(None); }
        let name = mc.method.to_string();
        let (lean, fuel, np) = match self.sigs.get(&name) { Some(s) if s.has_self => (s.lean.clone(), s.fuel, s.params.len()), _ => return Err(self.err(mc, &format!("call of the method `{}` that is not translated (earlier)", name))) };
        if np != mc.args.len() { return Err(self.err(mc, "argument count")); }
        let mut args = vec![];
        for a in &mc.args { args.push(self.expr(a, out, n)?); }
        if self.reads_in_stmt > 0 { return Err(self.err(mc, "a `self` field is read before a side-effecting call in the same expression: evaluation order not modelled")); }
        if fuel { self.needs_fuel = true; }
        Ok(Some(format!("{} Read_read{}{}", lean, if fuel { " fuel" } else { "" }, args.iter().map(|a| format!(" {}", a)).collect::<String>())))
    }

    /// translated pure expression; side-effecting calls are emitted to `out` (indent `n`) first
    fn expr(&mut self, e: &Expr, out: &mut Vec<String>, n: usize) -> Res<String> {
        match e {
            Expr::Paren(p) => self.expr(&p.expr, out, n),
            Expr::Lit(l) => self.lit(l),
            Expr::Reference(r) => self.expr(&r.expr, out, n),
            Expr::Path(p) => {
                let id = p.path.segments.last().unwrap().ident.to_string();
                if p.path.segments.len() == 1 {
                    if self.lookup(&id).is_some() { return Ok(id); }
                    if id == "None" { return Ok("none".into()); }
                }
                if let Some((en, f)) = self.variant_of(&id) { if f.is_empty() { return Ok(format!("{}.{}", en, id)); } }
                Err(self.err(e, &format!("unknown name `{}`", p.to_token_stream())))
            }
            Expr::Field(_) => {
                match self.self_field(e) {
                    Some(f) if self.field_ty(&f).is_some() => { self.reads_in_stmt += 1; Ok(format!("(← RsM.get).{}", f)) }
                    _ => Err(self.err(e, "unsupported field access")),
                }
            }
            Expr::Tuple(t) => {
                if t.elems.is_empty() { return Ok("()".into()); }
                let mut v = vec![];
                for x in &t.elems { v.push(self.expr(x, out, n)?); }
                Ok(format!("({})", v.join(", ")))
            }
            Expr::Index(ix) => {
                let a = self.expr(&ix.expr, out, n)?;
                let i = self.expr(&ix.index, out, n)?;
                Ok(format!("(← RsM.liftO (vecIdx {} {}))", a, i))
            }
            Expr::Cast(c) => {
                let v = self.expr(&c.expr, out, n)?;
                match c.ty.to_token_stream().to_string().as_str() {
                    "char" => Ok(format!("(Char.ofNat (Int.toNat {}))", v)),
                    _ => Err(self.err(e, "unsupported cast")),
                }
            }
            Expr::Unary(u) if matches!(u.op, syn::UnOp::Not(_)) => { let v = self.expr(&u.expr, out, n)?; Ok(format!("(!{})", v)) }
            Expr::Binary(b) => {
                match b.op {
                    BinOp::Or(_) | BinOp::And(_) => {
                        let is_or = matches!(b.op, BinOp::Or(_));
                        let l = self.expr(&b.left, out, n)?;
                        let mut sub = vec![];
                        let saved = self.reads_in_stmt; self.reads_in_stmt = 0;
                        let r = self.expr(&b.right, &mut sub, n + 2)?;
                        self.reads_in_stmt += saved;
                        if sub.is_empty() && !r.contains('←') { return Ok(format!("({} {} {})", l, if is_or { "||" } else { "&&" }, r)); }
                        let t = self.fresh();
                        out.push(format!("{}let {} ← if {} then pure {} else do", ind(n), t, l, if is_or { "true" } else { "false" }).replace(" then pure false else do", " = false then pure false else do"));
                        out.extend(sub);
                        out.push(format!("{}pure {}", ind(n + 2), r));
                        Ok(t)
                    }
                    BinOp::Eq(_) | BinOp::Ne(_) | BinOp::Lt(_) | BinOp::Le(_) | BinOp::Gt(_) | BinOp::Ge(_) => {
                        let l = self.expr(&b.left, out, n)?;
                        let r = self.expr(&b.right, out, n)?;
                        Ok(match b.op {
                            BinOp::Eq(_) => format!("({} == {})", l, r),
                            BinOp::Ne(_) => format!("({} != {})", l, r),
                            BinOp::Lt(_) => format!("(decide ({} < {}))", l, r),
                            BinOp::Le(_) => format!("(decide ({} ≤ {}))", l, r),
                            BinOp::Gt(_) => format!("(decide ({} > {}))", l, r),
                            _ => format!("(decide ({} ≥ {}))", l, r),
                        })
                    }
                    _ => Err(self.err(e, "unsupported binary operator (monadic mode has no arithmetic expressions; use `x += n;`)")),
                }
            }
            Expr::Try(t) => {
                let call = match &*t.expr { Expr::MethodCall(mc) => self.method_call_term(mc, out, n)?, _ => None };
                let call = call.ok_or_else(|| self.err(e, "`?` is only supported directly on a call `self.m(..)`"))?;
                let v = self.fresh();
                out.push(format!("{}let {} ← match (← {}) with", ind(n), v, call));
                out.push(format!("{}| Except.ok v => pure v", ind(n + 1)));
                out.push(format!("{}| Except.error e => {}", ind(n + 1), self.ret_wrap("(Except.error e)")));
                Ok(v)
            }
            Expr::MethodCall(mc) => {
                if let Some(call) = self.method_call_term(mc, out, n)? {
                    let v = self.fresh();
                    out.push(format!("{}let {} ← {}", ind(n), v, call));
                    return Ok(v);
                }
                let m = mc.method.to_string();
                let recv = self.expr(&mc.receiver, out, n)?;
                let mut args = vec![];
                for a in &mc.args { args.push(self.expr(a, out, n)?); }
                match (m.as_str(), args.len()) {
                    ("len", 0) => Ok(format!("(vecLen {})", recv)),
                    ("as_str", 0) | ("clone", 0) => Ok(recv),
                    ("contains", 1) => Ok(format!("(strContains {} {})", recv, args[0])),
                    _ => Err(self.err(e, &format!("unsupported method `{}`", m))),
                }
            }
            Expr::Call(c) => {
                let path = match &*c.func { Expr::Path(p) => p, _ => return Err(self.err(e, "unsupported call")) };
                let segs: Vec<String> = path.path.segments.iter().map(|s| s.ident.to_string()).collect();
                let last = segs.last().unwrap().clone();
                if segs.len() == 2 && last == "new" && c.args.is_empty() {
                    match segs[0].as_str() { "String" | "Vec" => return Ok("[]".into()), "HashMap" => return Ok("hmNew".into()), _ => {} }
                }
                let mut args = vec![];
                for a in &c.args { args.push(self.expr(a, out, n)?); }
                if segs.len() == 1 && args.len() == 1 {
                    match last.as_str() { "Ok" => return Ok(format!("(Except.ok {})", args[0])), "Err" => return Ok(format!("(Except.error {})", args[0])), "Some" => return Ok(format!("(some {})", args[0])), _ => {} }
                }
                if segs.len() == 2 {
                    let ty = if segs[0] == "Self" { self.spec.state.to_string() } else { segs[0].clone() };
                    if let Some(l) = self.assoc.get(&(ty.clone(), last.clone())) { return Ok(format!("({}{})", l, args.iter().map(|a| format!(" {}", a)).collect::<String>())); }
                }
                Err(self.err(e, &format!("unsupported call `{}`", path.to_token_stream())))
            }
            Expr::Struct(s) => {
                let id = s.path.segments.last().unwrap().ident.to_string();
                if s.rest.is_some() { return Err(self.err(e, "struct update syntax")); }
                let mut given: HashMap<String, String> = HashMap::new();
                for f in &s.fields { if let syn::Member::Named(nm) = &f.member { let v = self.expr(&f.expr, out, n)?; given.insert(nm.to_string(), v); } }
                if let Some((en, fs)) = self.variant_of(&id) {
                    let fs: Vec<String> = fs.iter().map(|f| f.0.clone()).collect();
                    let mut a = vec![];
                    for f in &fs { a.push(given.get(f).cloned().ok_or_else(|| self.err(e, "missing field"))?); }
                    return Ok(format!("({}.{}{})", en, id, a.iter().map(|x| format!(" {}", x)).collect::<String>()));
                }
                let sname = if id == "Self" { self.cur_self.clone() } else { id };
                let fs: Vec<String> = if sname == self.spec.state { self.fields.iter().map(|f| f.0.clone()).collect() } else { self.structs.get(&sname).ok_or_else(|| self.err(e, "unknown struct"))?.iter().map(|f| f.0.clone()).collect() };
                let mut a = vec![];
                for f in &fs { a.push(format!("{} := {}", f, given.get(f).cloned().ok_or_else(|| self.err(e, "missing field"))?)); }
                Ok(format!("{{ {} }}", a.join(", ")))
            }
            Expr::Macro(m) => {
                let name = m.mac.path.segments.last().unwrap().ident.to_string();
                if name == "matches" {
                    // matches!(E, "a" | "b" | ..)
                    let parser = |input: syn::parse::ParseStream| -> syn::Result<(Expr, Pat)> { let e: Expr = input.parse()?; let _: syn::Token![,] = input.parse()?; let p = Pat::parse_multi(input)?; Ok((e, p)) };
                    let (scrut, pat) = syn::parse::Parser::parse2(parser, m.mac.tokens.clone()).map_err(|_| self.err(e, "unsupported `matches!` form"))?;
                    let s = self.expr(&scrut, out, n)?;
                    let cases: Vec<&Pat> = match &pat { Pat::Or(o) => o.cases.iter().collect(), p => vec![p] };
                    let mut alts = vec![];
                    for c in cases { match c { Pat::Lit(l) => alts.push(format!("({} == {})", s, self.lit(l)?)), _ => return Err(self.err(e, "`matches!` with a non-literal pattern")) } }
                    return Ok(format!("({})", alts.join(" || ")));
                }
                if name == "vec" {
                    let parser = |input: syn::parse::ParseStream| -> syn::Result<(Expr, Expr)> { let a: Expr = input.parse()?; let _: syn::Token![;] = input.parse()?; let b: Expr = input.parse()?; Ok((a, b)) };
                    let (a, b) = syn::parse::Parser::parse2(parser, m.mac.tokens.clone()).map_err(|_| self.err(e, "unsupported `vec!` form"))?;
                    let a = self.expr(&a, out, n)?; let b = self.expr(&b, out, n)?;
                    return Ok(format!("(List.replicate (Int.toNat {}) {})", b, a));
                }
                Err(self.err(e, &format!("unsupported macro `{}!` in an expression", name)))
            }
            _ => Err(self.err(e, &format!("unsupported expression `{}`", e.to_token_stream()))),
        }
    }

    /// type of an initialiser (only what loop parameters need)
    fn infer(&self, e: &Expr) -> Option<syn::Type> {
        match e {
            Expr::Paren(p) => self.infer(&p.expr),
            Expr::Try(t) => self.infer(&t.expr).and_then(|t| Self::result_ok_ty(&t)),
            Expr::MethodCall(mc) if matches!(&*mc.receiver, Expr::Path(p) if p.path.is_ident("self")) => self.sigs.get(&mc.method.to_string()).and_then(|s| s.ret.clone()),
            Expr::Call(c) => {
                let s = c.func.to_token_stream().to_string().replace(' ', "");
                match s.as_str() {
                    "String::new" => Some(syn::parse_quote!(String)),
                    "Vec::new" | "HashMap::new" => self.cur_ret.as_ref().map(|t| Self::result_ok_ty(t).unwrap_or(t.clone())),
                    _ => None,
                }
            }
            Expr::Index(ix) => {
                let f = self.self_field(&ix.expr)?;
                if let syn::Type::Path(p) = self.field_ty(&f)? { let seg = p.path.segments.last()?; if seg.ident == "Vec" { if let syn::PathArguments::AngleBracketed(a) = &seg.arguments { if let Some(syn::GenericArgument::Type(t)) = a.args.first() { return Some(t.clone()); } } } }
                None
            }
            Expr::Path(p) => p.path.get_ident().and_then(|i| self.lookup(&i.to_string())).and_then(|l| l.1.clone()),
            _ => None,
        }
    }

    // ---------------------------------------------------------------- patterns

    /// Lean pattern and the conditions literal sub-patterns stand for
    fn pat(&mut self, p: &Pat, conds: &mut Vec<String>, binds: &mut Vec<String>) -> Res<String> {
        match p {
            Pat::Wild(_) => Ok("_".into()),
            Pat::Tuple(t) if t.elems.is_empty() => Ok("()".into()),
            Pat::Tuple(t) => { let mut v = vec![]; for x in &t.elems { v.push(self.pat(x, conds, binds)?); } Ok(format!("({})", v.join(", "))) }
            Pat::Lit(l) => { let v = self.fresh(); conds.push(format!("({} == {})", v, self.lit(l)?)); Ok(v) }
            Pat::Ident(pi) if pi.subpat.is_none() && pi.by_ref.is_none() => {
                let id = pi.ident.to_string();
                if id == "None" { return Ok("none".into()); }
                if let Some((en, f)) = self.variant_of(&id) { if f.is_empty() { return Ok(format!("{}.{}", en, id)); } }
                binds.push(id.clone());
                Ok(id)
            }
            Pat::Path(pp) => {
                let id = pp.path.segments.last().unwrap().ident.to_string();
                if id == "None" { return Ok("none".into()); }
                if let Some((en, f)) = self.variant_of(&id) { if f.is_empty() { return Ok(format!("{}.{}", en, id)); } }
                Err(self.err(p, "unsupported path pattern"))
            }
            Pat::TupleStruct(ts) if ts.elems.len() == 1 => {
                let inner = self.pat(&ts.elems[0], conds, binds)?;
                match ts.path.segments.last().unwrap().ident.to_string().as_str() {
                    "Ok" => Ok(format!("Except.ok {}", paren_pat(&inner))), "Err" => Ok(format!("Except.error {}", paren_pat(&inner))), "Some" => Ok(format!("some {}", paren_pat(&inner))),
                    _ => Err(self.err(p, "unsupported constructor pattern")),
                }
            }
            _ => Err(self.err(p, &format!("unsupported pattern `{}`", p.to_token_stream()))),
        }
    }

    // ---------------------------------------------------------------- statements

    /// `Tail::Ret`: the value of the block is the value of the function; `Tail::Value`: `pure v` (value of a do element); `Tail::None`: unit statement
    fn block(&mut self, b: &syn::Block, out: &mut Vec<String>, n: usize, tail: Tail) -> Res<()> {
        let depth = self.locals.len();
        let before = out.len();
        let cnt = b.stmts.len();
        for (i, s) in b.stmts.iter().enumerate() {
            let last = i + 1 == cnt;
            match s {
                Stmt::Expr(e, None) if last && tail != Tail::None => self.tail_expr(e, out, n, tail)?,
                Stmt::Expr(e, _) => self.stmt_expr(e, out, n)?,
                Stmt::Local(l) => self.local(l, out, n)?,
                Stmt::Macro(m) => {
                    let name = m.mac.path.segments.last().unwrap().ident.to_string();
                    if name == "panic" { out.push(format!("{}RsM.panic", ind(n))); } else { return Err(self.err(s, "unsupported macro statement")); }
                }
                _ => return Err(self.err(s, "unsupported statement")),
            }
        }
        if tail != Tail::None && !matches!(b.stmts.last(), Some(Stmt::Expr(_, None))) {
            // a block without a value in value position: only fine if it diverges (`return` / `panic!`) or the value is `()`
            match tail { Tail::Ret => {}, Tail::Value => out.push(format!("{}pure ()", ind(n))), Tail::None => {} }
        }
        if out.len() == before { out.push(format!("{}pure ()", ind(n))); }
        self.locals.truncate(depth);
        Ok(())
    }

    fn tail_expr(&mut self, e: &Expr, out: &mut Vec<String>, n: usize, tail: Tail) -> Res<()> {
        match e {
            Expr::If(_) | Expr::Match(_) => self.branching(e, out, n, tail),
            Expr::Block(b) => self.block(&b.block, out, n, tail),
            Expr::Return(_) | Expr::Break(_) | Expr::While(_) | Expr::Loop(_) => self.stmt_expr(e, out, n),
            Expr::Macro(m) if m.mac.path.is_ident("panic") => { out.push(format!("{}RsM.panic", ind(n))); Ok(()) }
            _ => {
                self.reads_in_stmt = 0;
                let v = self.expr(e, out, n)?;
                match tail { Tail::Ret => out.push(format!("{}{}", ind(n), self.ret_wrap(&v))), _ => out.push(format!("{}pure {}", ind(n), v)) }
                Ok(())
            }
        }
    }

    fn local(&mut self, l: &syn::Local, out: &mut Vec<String>, n: usize) -> Res<()> {
        let init = l.init.as_ref().ok_or_else(|| self.err(l, "`let` without initialiser"))?;
        if init.diverge.is_some() { return Err(self.err(l, "let-else")); }
        if self.opaque_read(l, out, n)? { return Ok(()); }
        let (pat, ann) = match &l.pat { Pat::Type(pt) => (&*pt.pat, Some((*pt.ty).clone())), p => (p, None) };
        self.reads_in_stmt = 0;
        match pat {
            Pat::Ident(pi) if pi.subpat.is_none() && pi.by_ref.is_none() => {
                let name = pi.ident.to_string();
                let ty = ann.or_else(|| self.infer(&init.expr));
                let m = if pi.mutability.is_some() { "mut " } else { "" };
                if matches!(&*init.expr, Expr::If(_) | Expr::Match(_)) {
                    out.push(format!("{}let {}{} ←", ind(n), m, name));
                    self.branching(&init.expr, out, n + 1, Tail::Value)?;
                } else {
                    let v = self.expr(&init.expr, out, n)?;
                    let annot = match &ty { Some(t) => match self.lean_ty(t) { Ok(l) => format!(" : {}", l), Err(_) => String::new() }, None => String::new() };
                    out.push(format!("{}let {}{}{} := {}", ind(n), m, name, annot, v));
                }
                self.locals.push((name, ty));
                Ok(())
            }
            Pat::Tuple(t) => {
                let mut names = vec![];
                for x in &t.elems { match x { Pat::Ident(pi) if pi.subpat.is_none() && pi.mutability.is_none() => names.push(pi.ident.to_string()), _ => return Err(self.err(l, "unsupported tuple pattern")) } }
                let v = self.expr(&init.expr, out, n)?;
                out.push(format!("{}let ({}) := {}", ind(n), names.join(", "), v));
                for nm in names { self.locals.push((nm, None)); }
                Ok(())
            }
            _ => Err(self.err(l, "unsupported `let` pattern")),
        }
    }

    fn set_field(&self, f: &str, v: &str) -> String { format!("RsM.set {{ (← RsM.get) with {} := {} }}", f, v) }

    fn stmt_expr(&mut self, e: &Expr, out: &mut Vec<String>, n: usize) -> Res<()> {
        self.reads_in_stmt = 0;
        match e {
            Expr::Assign(a) => {
                let v = self.expr(&a.right, out, n)?;
                if let Some(f) = self.self_field(&a.left) { out.push(format!("{}{}", ind(n), self.set_field(&f, &v))); return Ok(()); }
                if let Expr::Path(p) = &*a.left { if let Some(i) = p.path.get_ident() { if self.lookup(&i.to_string()).is_some() { out.push(format!("{}{} := {}", ind(n), i, v)); return Ok(()); } } }
                Err(self.err(e, "unsupported assignment target"))
            }
            Expr::Binary(b) if matches!(b.op, BinOp::AddAssign(_)) => {
                let f = self.self_field(&b.left).ok_or_else(|| self.err(e, "`+=` is only supported on a field of `self`"))?;
                let ty = self.field_ty(&f).and_then(|t| self.int_ty(t)).ok_or_else(|| self.err(e, "`+=` on a non-integer field"))?;
                let v = self.expr(&b.right, out, n)?;
                out.push(format!("{}{}", ind(n), self.set_field(&f, &format!("(← RsM.liftO (chk {} ((← RsM.get).{} + {})))", ty, f, v))));
                Ok(())
            }
            Expr::MethodCall(mc) => {
                if let Some(call) = self.method_call_term(mc, out, n)? { out.push(format!("{}let _ ← {}", ind(n), call)); return Ok(()); }
                let m = mc.method.to_string();
                // opaque `self.reader.read(&mut self.buf)`
                if let Some(rf) = self.self_field(&mc.receiver) { if m == "read" { return Err(self.err(e, &format!("the result of `self.{}.read(..)` must be bound by `let`", rf))); } }
                let mut args = vec![];
                for a in &mc.args { args.push(self.expr(a, out, n)?); }
                if let Some(f) = self.self_field(&mc.receiver) {
                    let cur = format!("(← RsM.get).{}", f);
                    let v = match (m.as_str(), args.len()) {
                        ("clear", 0) => "[]".to_string(),
                        ("resize", 2) => format!("(vecResize {} {} {})", cur, args[0], args[1]),
                        _ => return Err(self.err(e, &format!("unsupported method `{}` on a field", m))),
                    };
                    out.push(format!("{}{}", ind(n), self.set_field(&f, &v)));
                    return Ok(());
                }
                if let Expr::Path(p) = &*mc.receiver { if let Some(i) = p.path.get_ident() { if self.lookup(&i.to_string()).is_some() {
                    let v = match (m.as_str(), args.len()) {
                        ("push", 1) => format!("{} ++ [{}]", i, args[0]),
                        ("insert", 2) => format!("(hmInsert {} {} {}).1", i, args[0], args[1]),
                        _ => return Err(self.err(e, &format!("unsupported method `{}` on a local", m))),
                    };
                    out.push(format!("{}{} := {}", ind(n), i, v));
                    return Ok(());
                } } }
                Err(self.err(e, "unsupported method call statement"))
            }
            Expr::Try(_) => { let _ = self.expr(e, out, n)?; Ok(()) }
            Expr::Return(r) => {
                let v = match &r.expr { Some(x) => self.expr(x, out, n)?, None => "()".into() };
                out.push(format!("{}{}", ind(n), self.ret_wrap(&v)));
                Ok(())
            }
            Expr::Break(b) => {
                if b.label.is_some() || b.expr.is_some() { return Err(self.err(e, "labelled / valued `break`")); }
                let vars = self.in_loop.clone().ok_or_else(|| self.err(e, "`break` outside a loop"))?;
                out.push(format!("{}return (Ctl.next {})", ind(n), Self::loop_state_tuple(&vars)));
                Ok(())
            }
            Expr::If(_) | Expr::Match(_) => self.branching(e, out, n, Tail::None),
            Expr::Block(b) => self.block(&b.block, out, n, Tail::None),
            Expr::While(_) | Expr::Loop(_) => self.a_loop(e, out, n),
            Expr::Tuple(t) if t.elems.is_empty() => { out.push(format!("{}pure ()", ind(n))); Ok(()) }
            Expr::Macro(m) if m.mac.path.is_ident("panic") => { out.push(format!("{}RsM.panic", ind(n))); Ok(()) }
            _ => Err(self.err(e, &format!("unsupported statement `{}`", e.to_token_stream()))),
        }
    }

    fn branch_body(&mut self, e: &Expr, out: &mut Vec<String>, n: usize, tail: Tail) -> Res<()> {
        let before = out.len();
        match e {
            Expr::Block(b) => self.block(&b.block, out, n, tail)?,
            _ => if tail == Tail::None { self.stmt_expr(e, out, n)? } else { self.tail_expr(e, out, n, tail)? },
        }
        if out.len() == before { out.push(format!("{}pure ()", ind(n))); }
        Ok(())
    }

    /// `if` / `match` as a do element
    fn branching(&mut self, e: &Expr, out: &mut Vec<String>, n: usize, tail: Tail) -> Res<()> {
        match e {
            Expr::If(i) => {
                if matches!(&*i.cond, Expr::Let(_)) { return Err(self.err(e, "`if let`")); }
                self.reads_in_stmt = 0;
                let c = self.expr(&i.cond, out, n)?;
                out.push(format!("{}if {} then", ind(n), c));
                let depth = self.locals.len();
                let before = out.len();
                self.block(&i.then_branch, out, n + 1, tail)?;
                if out.len() == before { out.push(format!("{}pure ()", ind(n + 1))); }
                self.locals.truncate(depth);
                match &i.else_branch {
                    Some((_, eb)) => { out.push(format!("{}else", ind(n))); self.branch_body(eb, out, n + 1, tail)?; }
                    None => { if tail != Tail::None { return Err(self.err(e, "`if` without `else` in value position")); } }
                }
                Ok(())
            }
            Expr::Match(m) => {
                self.reads_in_stmt = 0;
                let scrut = self.expr(&m.expr, out, n)?;
                // translate the patterns
                struct Arm<'a> { pat: String, conds: Vec<String>, binds: Vec<String>, guard: Option<&'a Expr>, body: &'a Expr }
                let mut arms: Vec<Arm> = vec![];
                for a in &m.arms {
                    let cases: Vec<&Pat> = match &a.pat { Pat::Or(o) => o.cases.iter().collect(), p => vec![p] };
                    let mut pats = vec![]; let mut conds = vec![]; let mut binds = vec![];
                    for c in cases { pats.push(self.pat(c, &mut conds, &mut binds)?); }
                    if pats.len() > 1 && (!conds.is_empty() || !binds.is_empty()) { return Err(self.err(&a.pat, "or-pattern with bindings / literals")); }
                    arms.push(Arm { pat: pats.join(" | "), conds, binds, guard: a.guard.as_ref().map(|g| &*g.1), body: &a.body });
                }
                let conditional = arms.iter().any(|a| !a.conds.is_empty() || a.guard.is_some());
                if !conditional {
                    out.push(format!("{}match {} with", ind(n), scrut));
                    for a in &arms {
                        out.push(format!("{}| {} =>", ind(n), a.pat));
                        let depth = self.locals.len();
                        for b in &a.binds { self.locals.push((b.clone(), None)); }
                        self.branch_body(a.body, out, n + 1, tail)?;
                        self.locals.truncate(depth);
                    }
                    return Ok(());
                }
                // conditional arms: a scrutinee of integer type (literal / binding / `_` patterns) is an if-chain; a `Result` scrutinee whose
                // arms are `Ok(literal | binding) [if guard]` followed by one final `_` is one `match` with an if-chain in the `Ok` arm
                let last = arms.last().unwrap();
                if !(last.conds.is_empty() && last.guard.is_none() && (last.pat == "_" || last.binds.len() == 1 && last.pat == last.binds[0])) {
                    return Err(self.err(e, "a `match` with literal patterns / guards needs a final catch-all arm"));
                }
                let plain_int = arms.iter().all(|a| (a.conds.len() == 1 && a.pat.starts_with('t') && !a.pat.contains(' ')) || a.pat == "_" || (a.binds.len() == 1 && a.pat == a.binds[0]));
                let ok_shape = arms[..arms.len() - 1].iter().all(|a| a.pat.starts_with("Except.ok ") && !a.pat.contains('|')) && last.pat == "_";
                if !plain_int && !ok_shape { return Err(self.err(e, "unsupported combination of literal patterns / guards")); }
                let (var, base) = if plain_int {
                    if scrut.chars().all(|c| c.is_alphanumeric() || c == '_') { (scrut.clone(), n) } else {
                        if tail == Tail::Value { return Err(self.err(e, "a `match` on a compound integer expression in value position (bind it with `let` first)")); }
                        let v = self.fresh();
                        out.push(format!("{}let {} := {}", ind(n), v, scrut));
                        (v, n)
                    }
                } else {
                    let v = self.fresh();
                    out.push(format!("{}match {} with", ind(n), scrut));
                    out.push(format!("{}| Except.ok {} =>", ind(n), v));
                    (v, n + 1)
                };
                let mut level = base;
                let narms = arms.len();
                for (k, a) in arms.iter().enumerate() {
                    let is_last = k + 1 == narms;
                    let inner = if plain_int { a.pat.clone() } else { a.pat.trim_start_matches("Except.ok ").to_string() };
                    let depth = self.locals.len();
                    if is_last {
                        if plain_int && a.binds.len() == 1 { out.push(format!("{}let {} := {}", ind(level), a.binds[0], var)); self.locals.push((a.binds[0].clone(), None)); }
                        self.branch_body(a.body, out, level, tail)?;
                        self.locals.truncate(depth);
                        break;
                    }
                    let mut cs: Vec<String> = a.conds.iter().map(|c| c.replace(&format!("({} ==", inner), &format!("({} ==", var))).collect();
                    if a.binds.len() == 1 && inner == a.binds[0] { out.push(format!("{}let {} := {}", ind(level), a.binds[0], var)); self.locals.push((a.binds[0].clone(), None)); }
                    if let Some(g) = a.guard { self.reads_in_stmt = 0; cs.push(self.expr(g, out, level)?); }
                    out.push(format!("{}if {} then", ind(level), cs.join(" && ")));
                    self.branch_body(a.body, out, level + 1, tail)?;
                    self.locals.truncate(depth);
                    out.push(format!("{}else", ind(level)));
                    level += 1;
                }
                if !plain_int {
                    out.push(format!("{}| _ =>", ind(n)));
                    self.branch_body(last.body, out, n + 1, tail)?;
                }
                Ok(())
            }
            _ => Err(self.err(e, "not a branching expression")),
        }
    }

    fn assigned_vars(&self, b: &syn::Block, acc: &mut Vec<String>) {
        struct V<'a> { acc: &'a mut Vec<String> }
        impl<'a, 'ast> syn::visit::Visit<'ast> for V<'a> {
            fn visit_expr_assign(&mut self, a: &'ast syn::ExprAssign) { if let Expr::Path(p) = &*a.left { if let Some(i) = p.path.get_ident() { self.acc.push(i.to_string()); } } syn::visit::visit_expr_assign(self, a); }
            fn visit_expr_method_call(&mut self, m: &'ast syn::ExprMethodCall) {
                if matches!(m.method.to_string().as_str(), "push" | "insert" | "clear") { if let Expr::Path(p) = &*m.receiver { if let Some(i) = p.path.get_ident() { self.acc.push(i.to_string()); } } }
                syn::visit::visit_expr_method_call(self, m);
            }
        }
        let mut v = V { acc };
        syn::visit::Visit::visit_block(&mut v, b);
    }
    fn used_idents(&self, ts: proc_macro2::TokenStream, acc: &mut Vec<String>) {
        for t in ts { match t { proc_macro2::TokenTree::Ident(i) => acc.push(i.to_string()), proc_macro2::TokenTree::Group(g) => self.used_idents(g.stream(), acc), _ => {} } }
    }

    fn a_loop(&mut self, e: &Expr, out: &mut Vec<String>, n: usize) -> Res<()> {
        if self.in_loop.is_some() { return Err(self.err(e, "nested loops")); }
        let (cond, body): (Option<&Expr>, &syn::Block) = match e { Expr::While(w) => { if w.label.is_some() { return Err(self.err(e, "labelled loop")); } (Some(&w.cond), &w.body) }, Expr::Loop(l) => (None, &l.body), _ => unreachable!() };
        self.loop_count += 1;
        self.needs_fuel = true;
        let name = format!("{}.{}.loop_{}", self.spec.state, self.cur_fn, self.loop_count);
        // loop-carried locals (assigned in the loop, declared outside) and captured locals (read only)
        let mut assigned = vec![]; self.assigned_vars(body, &mut assigned);
        let mut used = vec![]; self.used_idents(e.to_token_stream(), &mut used);
        let mut state: Vec<(String, syn::Type)> = vec![]; let mut caps: Vec<(String, syn::Type)> = vec![];
        for (nm, ty) in self.locals.clone() {
            if state.iter().any(|s| s.0 == nm) || caps.iter().any(|s| s.0 == nm) || !used.contains(&nm) { continue; }
            let ty = ty.ok_or_else(|| self.err(e, &format!("the type of the local `{}` used in a loop is not known (annotate it)", nm)))?;
            if assigned.contains(&nm) { state.push((nm, ty)); } else { caps.push((nm, ty)); }
        }
        let svars: Vec<String> = state.iter().map(|s| s.0.clone()).collect();
        let ret_ty = match &self.cur_ret { Some(t) => self.lean_ty(t)?, None => "Unit".into() };
        let sty = match state.len() { 0 => "Unit".to_string(), 1 => self.lean_ty(&state[0].1)?, _ => { let v: Res<Vec<String>> = state.iter().map(|s| self.lean_ty(&s.1)).collect(); format!("({})", v?.join(" × ")) } };
        let mut d = vec![];
        let line = e.span().start().line;
        d.push(format!("/-- loop of `{}` ({}:{}).  Captured: {}.  Loop-carried locals: {}.  `Ctl.ret r` = the function returned `r` from inside the loop, `Ctl.next s` = the loop ended (condition false / `break`); `none` = panic or the counter ran out.  Calls in the body get the fuel `fuel` of the function. -/",
            self.cur_fn, self.spec.file, line, if caps.is_empty() { "-".into() } else { caps.iter().map(|c| c.0.clone()).collect::<Vec<_>>().join(", ") }, if svars.is_empty() { "-".into() } else { svars.join(", ") }));
        let mut sig = format!("def {} {}", name, self.common_params());
        sig.push_str(" (fuel : Nat)");
        for c in &caps { sig.push_str(&format!(" ({} : {})", c.0, self.lean_ty(&c.1)?)); }
        sig.push_str(" : Nat");
        for s in &state { sig.push_str(&format!(" → {}", self.lean_ty(&s.1)?)); }
        sig.push_str(&format!(" → RsM {} (Ctl {} {})", self.state_ty(), ret_ty, sty));
        d.push(sig);
        d.push(format!("  | 0{} => RsM.panic", svars.iter().map(|_| ", _".to_string()).collect::<String>()));
        d.push(format!("  | cnt + 1{} => do", svars.iter().map(|v| format!(", {}", v)).collect::<String>()));
        let mut lines = vec![];
        for v in &svars { lines.push(format!("{}let mut {} := {}", ind(2), v, v)); }
        self.in_loop = Some(svars.clone());
        let saved_locals = self.locals.clone();
        let exit = format!("return (Ctl.next {})", Self::loop_state_tuple(&svars));
        match cond {
            Some(Expr::Let(l)) => {
                // while let PAT = E { body }
                self.reads_in_stmt = 0;
                let v = self.expr(&l.expr, &mut lines, 2)?;
                let mut conds = vec![]; let mut binds = vec![];
                let p = self.pat(&l.pat, &mut conds, &mut binds)?;
                if !conds.is_empty() { return Err(self.err(e, "literal in a `while let` pattern")); }
                lines.push(format!("{}match {} with", ind(2), v));
                lines.push(format!("{}| {} =>", ind(2), p));
                for b in &binds { self.locals.push((b.clone(), None)); }
                self.block(body, &mut lines, 3, Tail::None)?;
                lines.push(format!("{}| _ => {}", ind(2), exit));
            }
            Some(c) => {
                self.reads_in_stmt = 0;
                let c = self.expr(c, &mut lines, 2)?;
                lines.push(format!("{}if {} = false then {}", ind(2), c, exit));
                self.block(body, &mut lines, 2, Tail::None)?;
            }
            None => self.block(body, &mut lines, 2, Tail::None)?,
        }
        self.locals = saved_locals;
        self.in_loop = None;
        let args = format!("{} fuel{}", self.common_args(), caps.iter().map(|c| format!(" {}", c.0)).collect::<String>());
        lines.push(format!("{}{} {} cnt{}", ind(2), name, args, svars.iter().map(|v| format!(" {}", v)).collect::<String>()));
        d.extend(lines);
        self.loops.push(d.join("\n"));
        // the call
        out.push(format!("{}match (← {} {} fuel{}) with", ind(n), name, args, svars.iter().map(|v| format!(" {}", v)).collect::<String>()));
        out.push(format!("{}| Ctl.ret r => return r", ind(n)));
        let has_break = { let mut u = vec![]; self.used_idents(body.to_token_stream(), &mut u); u.iter().any(|x| x == "break") };
        if cond.is_none() && !has_break {
            // `loop` without `break`: the code after it is unreachable
            out.push(format!("{}| Ctl.next _ => RsM.panic", ind(n)));
            return Ok(());
        }
        match svars.len() {
            0 => out.push(format!("{}| Ctl.next _ => pure ()", ind(n))),
            1 => { out.push(format!("{}| Ctl.next s1 =>", ind(n))); out.push(format!("{}{} := s1", ind(n + 1), svars[0])); }
            _ => {
                let ss: Vec<String> = (1..=svars.len()).map(|i| format!("s{}", i)).collect();
                out.push(format!("{}| Ctl.next ({}) =>", ind(n), ss.join(", ")));
                for (v, s) in svars.iter().zip(ss.iter()) { out.push(format!("{}{} := {}", ind(n + 1), v, s)); }
            }
        }
        Ok(())
    }

    fn common_params(&self) -> String {
        let g: Vec<String> = self.generics.iter().map(|g| format!("{}T", g)).collect();
        format!("{{{} IoErrorT : Type}} (Read_read : {} → List Int → (Except IoErrorT Int × {} × List Int))", g.join(" "), g[0], g[0])
    }
    fn common_args(&self) -> String { "Read_read".into() }

    /// `let result = self.reader.read(&mut self.current_buffer);` — the one opaque call
    fn opaque_read(&mut self, l: &syn::Local, out: &mut Vec<String>, n: usize) -> Res<bool> {
        let init = match &l.init { Some(i) => i, None => return Ok(false) };
        let mc = match &*init.expr { Expr::MethodCall(mc) => mc, _ => return Ok(false) };
        let rf = match self.self_field(&mc.receiver) { Some(f) => f, None => return Ok(false) };
        let is_generic = matches!(self.field_ty(&rf), Some(syn::Type::Path(p)) if p.path.get_ident().map_or(false, |i| self.generics.iter().any(|g| i == g)));
        if !is_generic { return Ok(false); }
        if mc.method != "read" || mc.args.len() != 1 { return Err(self.err(l, "unsupported call on a field of `self`")); }
        let bf = match &mc.args[0] { Expr::Reference(r) if r.mutability.is_some() => self.self_field(&r.expr), _ => None }.ok_or_else(|| self.err(l, "the argument of `read` must be `&mut self.<field>`"))?;
        let name = match &l.pat { Pat::Ident(pi) if pi.mutability.is_none() => pi.ident.to_string(), _ => return Err(self.err(l, "unsupported pattern")) };
        out.push(format!("{}let ({}, reader', buffer') := Read_read (← RsM.get).{} (← RsM.get).{}", ind(n), name, rf, bf));
        out.push(format!("{}RsM.set {{ (← RsM.get) with {} := reader', {} := buffer' }}", ind(n), rf, bf));
        self.locals.push((name, None));
        Ok(true)
    }
}

#[derive(Clone, Copy, PartialEq, Eq)]
enum Tail { Ret, Value, None }

fn paren_pat(p: &str) -> String { if p.contains(' ') && !p.starts_with('(') { format!("({})", p) } else { p.to_string() } }

pub fn generate(world: &mut World, spec: &'static Spec) -> Res<String> {
    world.load(spec.file)?;
    let file = world.file(spec.file).clone();
    let path = world.path_of(spec.file).display().to_string();
    let mut g = Gen {
        world, spec, path: path.clone(), fields: vec![], generics: vec![], enums: HashMap::new(), structs: HashMap::new(), sigs: HashMap::new(), assoc: HashMap::new(),
        cur_fn: String::new(), cur_self: String::new(), cur_ret: None, locals: vec![], tmp: 0, loops: vec![], loop_count: 0, needs_fuel: false, in_loop: None, reads_in_stmt: 0,
    };
    let _ = g.world;
    let mut items: Vec<String> = vec![PREAMBLE.to_string()];
    // enums and structs
    for it in &file.items {
        match it {
            syn::Item::Enum(en) if spec.enums.contains(&en.ident.to_string().as_str()) => {
                let mut vs = vec![];
                for v in &en.variants {
                    let fs = match &v.fields {
                        syn::Fields::Unit => vec![],
                        syn::Fields::Named(nf) => nf.named.iter().map(|f| (f.ident.as_ref().unwrap().to_string(), f.ty.clone())).collect(),
                        _ => return Err(format!("{}: enum `{}`: tuple variants unsupported", path, en.ident)),
                    };
                    vs.push((v.ident.to_string(), fs));
                }
                g.enums.insert(en.ident.to_string(), vs);
            }
            syn::Item::Struct(st) if st.ident == spec.state || spec.data.contains(&st.ident.to_string().as_str()) => {
                let fs: Vec<(String, syn::Type)> = match &st.fields { syn::Fields::Named(nf) => nf.named.iter().map(|f| (f.ident.as_ref().unwrap().to_string(), f.ty.clone())).collect(), _ => return Err(format!("{}: struct `{}`: unsupported shape", path, st.ident)) };
                if st.ident == spec.state {
                    g.fields = fs;
                    g.generics = st.generics.params.iter().filter_map(|p| if let syn::GenericParam::Type(t) = p { Some(t.ident.to_string()) } else { None }).collect();
                } else { g.structs.insert(st.ident.to_string(), fs); }
            }
            _ => {}
        }
    }
    for en in spec.enums {
        let vs = g.enums.get(*en).ok_or_else(|| format!("{}: enum `{}` not found", path, en))?.clone();
        let mut s = format!("/-- `enum {}` ({}) -/\ninductive {} where\n", en, spec.file, en);
        for (v, fs) in &vs {
            s.push_str(&format!("  | {}", v));
            for (f, t) in fs { s.push_str(&format!(" ({} : {})", f, g.lean_ty(t)?)); }
            s.push('\n');
        }
        s.push_str("deriving DecidableEq, Repr");
        items.push(s);
    }
    if g.fields.is_empty() || g.generics.len() != 1 { return Err(format!("{}: struct `{}` (one generic parameter) not found", path, spec.state)); }
    for d in spec.data.iter().chain(std::iter::once(&spec.state)) {
        let is_state = *d == spec.state;
        let fs = if is_state { g.fields.clone() } else { g.structs.get(*d).ok_or_else(|| format!("{}: struct `{}` not found", path, d))?.clone() };
        let gen = if is_state { format!(" ({}T : Type)", g.generics[0]) } else { String::new() };
        let mut s = format!("/-- `struct {}` ({}) -/\nstructure {}{} where\n", d, spec.file, d, gen);
        for (f, t) in &fs { s.push_str(&format!("  {} : {}\n", f, g.lean_ty(t)?)); }
        items.push(s.trim_end().to_string());
    }
    // functions
    let mut found: Vec<(String, syn::ImplItemFn, bool)> = vec![];
    for it in &file.items {
        if let syn::Item::Impl(im) = it {
            let ty = match &*im.self_ty { syn::Type::Path(p) => p.path.segments.last().unwrap().ident.to_string(), _ => continue };
            for ii in &im.items {
                if let syn::ImplItem::Fn(f) = ii {
                    let name = f.sig.ident.to_string();
                    if im.trait_.is_none() && spec.data.contains(&ty.as_str()) && name == "new" { found.push((format!("{}::new", ty), f.clone(), false)); }
                    if ty == spec.state {
                        match &im.trait_ {
                            None if spec.methods.contains(&name.as_str()) => found.push((name, f.clone(), true)),
                            Some((_, tp, _)) if spec.trait_methods.iter().any(|(t, m)| tp.segments.last().unwrap().ident == t && name == *m) => found.push((name, f.clone(), true)),
                            _ => {}
                        }
                    }
                }
            }
        }
    }
    let mut order: Vec<String> = spec.data.iter().map(|d| format!("{}::new", d)).collect();
    order.extend(spec.methods.iter().map(|m| m.to_string()));
    order.extend(spec.trait_methods.iter().map(|m| m.1.to_string()));
    for name in &order {
        let hits: Vec<&(String, syn::ImplItemFn, bool)> = found.iter().filter(|f| &f.0 == name).collect();
        if hits.len() != 1 { return Err(format!("{}: `{}`: expected exactly one definition, found {}", path, name, hits.len())); }
        let (_, f, in_state) = hits[0];
        let has_self = f.sig.receiver().is_some();
        g.cur_fn = name.replace("::", ".");
        g.cur_self = if *in_state { spec.state.to_string() } else { name.split("::").next().unwrap().to_string() };
        g.tmp = 0; g.loops.clear(); g.loop_count = 0; g.needs_fuel = false; g.locals.clear(); g.in_loop = None;
        let mut params = vec![];
        for a in &f.sig.inputs { if let syn::FnArg::Typed(pt) = a { match &*pt.pat { Pat::Ident(pi) => params.push((pi.ident.to_string(), (*pt.ty).clone())), _ => return Err(g.err(a, "unsupported parameter pattern")) } } }
        let ret: Option<syn::Type> = match &f.sig.output {
            syn::ReturnType::Default => None,
            syn::ReturnType::Type(_, t) => {
                // `Option<Self::Item>` of the iterator: the associated type is looked up in the impl
                let txt = t.to_token_stream().to_string().replace(' ', "");
                if txt == "Option<Self::Item>" {
                    let mut item: Option<syn::Type> = None;
                    for it in &file.items { if let syn::Item::Impl(im) = it { if im.trait_.is_some() { for ii in &im.items { if let syn::ImplItem::Type(ty) = ii { if ty.ident == "Item" { item = Some(ty.ty.clone()); } } } } } }
                    let item = item.ok_or_else(|| g.err(t, "associated type `Item` not found"))?;
                    Some(syn::parse_quote!(Option<#item>))
                } else { Some((**t).clone()) }
            }
        };
        g.cur_ret = ret.clone();
        for p in &params { g.locals.push((p.0.clone(), Some(p.1.clone()))); }
        let doc_sig = f.sig.to_token_stream().to_string();
        let line = f.sig.span().start().line;
        if !has_self {
            // plain constructor: the body is one struct literal
            let mut out = vec![];
            let body = match f.block.stmts.as_slice() { [Stmt::Expr(e, None)] => g.expr(e, &mut out, 1)?, _ => return Err(g.err(&f.sig, "a function without `self` must be a single expression")) };
            if !out.is_empty() || body.contains('←') { return Err(g.err(&f.sig, "a function without `self` must be pure")); }
            let ret_l = match &ret { Some(t) => g.lean_ty(t)?, None => "Unit".into() };
            let (lean, head) = if *in_state {
                (format!("{}.{}", spec.state, name), format!("{{{}T : Type}} ", g.generics[0]))
            } else { (name.replace("::", "."), String::new()) };
            let mut s = format!("/-- `{}` ({}:{}) -/\ndef {} {}", doc_sig, spec.file, line, lean, head);
            for p in &params { s.push_str(&format!("({} : {}) ", p.0, g.lean_ty(&p.1)?)); }
            s.push_str(&format!(": {} :=\n  {}", ret_l, body));
            items.push(s);
            if *in_state { g.assoc.insert((spec.state.to_string(), name.clone()), lean.clone()); g.sigs.insert(name.clone(), FnSig { params, ret, has_self: false, fuel: false, lean }); }
            else { let ty = name.split("::").next().unwrap().to_string(); g.assoc.insert((ty, "new".into()), lean); }
            continue;
        }
        let mut body = vec![];
        // statements: the opaque read is recognised at `let` level
        {
            let b = &f.block;
            g.translate_fn_body(b, &mut body)?;
        }
        let lean = format!("{}.{}", spec.state, name);
        let ret_l = match &ret { Some(t) => g.lean_ty(t)?, None => "Unit".into() };
        let mut s = String::new();
        for l in &g.loops { s.push_str(l); s.push_str("\n\n"); }
        s.push_str(&format!("/-- `{}` in `impl {}` ({}:{}).  `Read_read` = the OPAQUE `Read::read` of the underlying reader: (reader, buffer) ↦ (result, reader after the call, buffer after the call){}. -/\n",
            doc_sig, spec.state, spec.file, line, if g.needs_fuel { "; `fuel` = bound of every loop (`none` when it runs out)" } else { "" }));
        s.push_str(&format!("def {} {}", lean, g.common_params()));
        if g.needs_fuel { s.push_str(" (fuel : Nat)"); }
        for p in &params { s.push_str(&format!(" ({} : {})", p.0, g.lean_ty(&p.1)?)); }
        s.push_str(&format!(" : RsM {} {} := do\n", g.state_ty(), ret_l));
        s.push_str(&body.join("\n"));
        items.push(s);
        g.sigs.insert(name.clone(), FnSig { params, ret, has_self: true, fuel: g.needs_fuel, lean });
    }
    Ok(items.join("\n\n"))
}

impl<'w> Gen<'w> {
    fn translate_fn_body(&mut self, b: &syn::Block, out: &mut Vec<String>) -> Res<()> {
        // same as `block` with `Tail::Ret`, plus the opaque read (which may sit in a nested block: handled in `local` through this hook)
        self.block_with_read(b, out, 1, Tail::Ret)
    }
    fn block_with_read(&mut self, b: &syn::Block, out: &mut Vec<String>, n: usize, tail: Tail) -> Res<()> { self.block(b, out, n, tail) }
}
