//! The table of translated items, in dependency order.

use crate::world::Container::*;
use crate::world::{Opaque, Target, What};

/// files scanned for `type X = <primitive>;`
pub const ALIAS_FILES: &[&str] = &["board/src/board/constants.rs", "board/src/board/precalculated/magic.rs", "board/src/board/precalculated/nonmagic.rs"];

/// structs whose values are flattened into one parameter per field that is read (name, file)
pub const FLAT_STRUCTS: &[(&str, &str)] = &[
    ("Bitboard", "board/src/board.rs"),
    ("ZobristHistory", "engine_core/src/engine/zobrist_history.rs"),
    ("KillerTable", "engine_core/src/engine/table/killer.rs"),
    ("Search", "engine_core/src/engine/search.rs"),
    ("SearchState", "engine_core/src/engine/search.rs"),
    ("SearchParams", "engine_core/src/engine/search.rs"),
    ("Go", "uci/src/uci.rs"),
    ("HashTable", "engine_core/src/engine/table.rs"),
    ("MagicConfiguration", "board/src/board/precalculated/magic.rs"),
    ("Color", "core/src/constants/color.rs"),
    ("SimpleHeuristic", "engine_core/src/engine/heuristic/simple.rs"),
];

/// types whose values are only passed around: Lean type variables
pub const OPAQUE_TYPES: &[&str] = &["Square", "Captures", "Match", "Piece", "ColoredPiece"];

/// argument types of opaque methods / associated functions that take arguments other than plain parameters: (receiver type, method, argument types)
pub const OPAQUE_ARGS: &[(&str, &str, &[&str])] = &[
    ("Captures", "get", &["usize"]),
    ("Fen", "parse", &["str"]),
    ("Piece", "from_index", &["usize"]),
    ("Square", "from_index", &["usize"]),
];

/// associated types of trait impls: (self type, name, type)
pub const ASSOC_TYPES: &[(&str, &str, &str)] = &[("Fen", "Err", "FenParseError")];

/// OPAQUE TABLE TYPES: a value of such a type (a parameter `magics: &Magics`, a local chosen between two globals) is
/// represented by its lookup FUNCTION: (type name, the one method that may be called on it, argument types, result type)
pub const TABLE_TYPES: &[(&str, &str, &[&str], &str)] = &[
    ("Magics", "get_attacks", &["u32", "u64"], "u64"),
    ("Nonmagics", "get_attacks", &["u32"], "u64"),
];

/// the global tables and their types (a global used as a VALUE must also be listed as opaque receiver of the target)
pub const TABLE_GLOBALS: &[(&str, &str)] = &[
    ("ROOK_MAGICS", "Magics"), ("BISHOP_MAGICS", "Magics"),
    ("KNIGHT_NONMAGICS", "Nonmagics"), ("KING_NONMAGICS", "Nonmagics"),
    ("WHITE_PAWN_NONMAGICS", "Nonmagics"), ("BLACK_PAWN_NONMAGICS", "Nonmagics"),
];

/// fixed Lean text at the start of a generated module (helper definitions used by the mapping table): (module, text)
pub const MODULE_PREAMBLE: &[(&str, &str)] = &[("UciText", UCI_TEXT_PREAMBLE)];

const UCI_TEXT_PREAMBLE: &str = r#"/-- Unicode `White_Space` (what `str::trim` removes; `char::is_whitespace`) -/
def isWhiteSpace (c : Char) : Bool :=
  let n := c.toNat
  (0x9 ≤ n && n ≤ 0xD) || n == 0x20 || n == 0x85 || n == 0xA0 || n == 0x1680 || (0x2000 ≤ n && n ≤ 0x200A)
    || n == 0x2028 || n == 0x2029 || n == 0x202F || n == 0x205F || n == 0x3000

/-- `str::trim` on the list of chars -/
def strTrim (s : List Char) : List Char :=
  ((s.dropWhile isWhiteSpace).reverse.dropWhile isWhiteSpace).reverse"#;

/// Lean type of the lookup function of a table type (bit-manipulating functions only: `u64` = `UInt64`)
pub fn table_lean_type(name: &str) -> String {
    let t = TABLE_TYPES.iter().find(|t| t.0 == name).expect("table type");
    let l = |s: &str| if s == "u64" { "UInt64" } else { "Int" };
    let mut parts: Vec<&str> = t.2.iter().map(|a| l(a)).collect();
    parts.push(l(t.3));
    parts.join(" → ")
}

const PLAIN: What = What::Fn { opaque: &[], vec_list: false, bits: false };

const BOARD_CONSTS: &str = "board/src/board/constants.rs";
const BOARD: &str = "board/src/board.rs";
const ZH: &str = "engine_core/src/engine/zobrist_history.rs";
const UCI: &str = "uci/src/uci.rs";
const HEUR: &str = "engine_core/src/engine/heuristic.rs";
const SIMPLE: &str = "engine_core/src/engine/heuristic/simple.rs";
const CORE_CONSTS: &str = "core/src/constants/mod.rs";
const SQUARE: &str = "core/src/constants/square.rs";
const KILLER: &str = "engine_core/src/engine/table/killer.rs";
const FEN: &str = "core/src/fen.rs";
const SEARCH: &str = "engine_core/src/engine/search.rs";
const MOVE_ORDER: &str = "engine_core/src/engine/move_order.rs";
const TABLE: &str = "engine_core/src/engine/table.rs";
const MAGIC: &str = "board/src/board/precalculated/magic.rs";
const BITS: What = What::Fn { opaque: &[], vec_list: true, bits: true };
const BOARD_LIB: &str = "board/src/lib.rs";
/// the attack-table lookups: opaque functions of (square, occupancy) / (square)
const TABLES: &[Opaque] = &[
    Opaque { recv: "ROOK_MAGICS", method: "get_attacks", ret: "u64" },
    Opaque { recv: "BISHOP_MAGICS", method: "get_attacks", ret: "u64" },
    Opaque { recv: "KNIGHT_NONMAGICS", method: "get_attacks", ret: "u64" },
    Opaque { recv: "WHITE_PAWN_NONMAGICS", method: "get_attacks", ret: "u64" },
    Opaque { recv: "BLACK_PAWN_NONMAGICS", method: "get_attacks", ret: "u64" },
    Opaque { recv: "KING_NONMAGICS", method: "get_attacks", ret: "u64" },
];
const UCI_TEXT_OPAQUE: &[Opaque] = &[
    Opaque { recv: "Square", method: "from_index", ret: "Option<Square>" },
    Opaque { recv: "Square", method: "fen", ret: "str" },
    Opaque { recv: "Piece", method: "from_index", ret: "Option<Piece>" },
    Opaque { recv: "Piece", method: "fen", ret: "char" },
];
const UCI_TEXT: What = What::Fn { opaque: UCI_TEXT_OPAQUE, vec_list: true, bits: true };
const FIND_UCI_OPAQUE: &[Opaque] = &[
    Opaque { recv: "ROOK_MAGICS", method: "get_attacks", ret: "u64" },
    Opaque { recv: "BISHOP_MAGICS", method: "get_attacks", ret: "u64" },
    Opaque { recv: "KNIGHT_NONMAGICS", method: "get_attacks", ret: "u64" },
    Opaque { recv: "WHITE_PAWN_NONMAGICS", method: "get_attacks", ret: "u64" },
    Opaque { recv: "BLACK_PAWN_NONMAGICS", method: "get_attacks", ret: "u64" },
    Opaque { recv: "KING_NONMAGICS", method: "get_attacks", ret: "u64" },
    Opaque { recv: "Square", method: "from_index", ret: "Option<Square>" },
    Opaque { recv: "Square", method: "fen", ret: "str" },
    Opaque { recv: "Piece", method: "from_index", ret: "Option<Piece>" },
    Opaque { recv: "Piece", method: "fen", ret: "char" },
];
const FIND_UCI: What = What::Fn { opaque: FIND_UCI_OPAQUE, vec_list: true, bits: true };
const SIMPLE_TABLES: What = What::Fn {
    opaque: &[Opaque { recv: "WHITE_TABLES", method: "", ret: "[[[i32; 64]; 6]; 3]" }, Opaque { recv: "BLACK_TABLES", method: "", ret: "[[[i32; 64]; 6]; 3]" }],
    vec_list: true, bits: true,
};
const CHECK: What = What::Fn { opaque: TABLES, vec_list: true, bits: true };
const ZOBRIST: &[Opaque] = &[
    Opaque { recv: "Zobrist", method: "BLACK_TO_MOVE_HASH", ret: "u64" },
    Opaque { recv: "Zobrist", method: "castle_hash", ret: "u64" },
    Opaque { recv: "Zobrist", method: "en_passant_square_hash", ret: "u64" },
    Opaque { recv: "Zobrist", method: "piece_square_hash", ret: "u64" },
];
macro_rules! ps { ($n:literal) => { Target { module: "Check", file: BOARD, container: Impl("PlayerState"), name: $n, what: BITS } }; }
macro_rules! bb { ($n:literal) => { Target { module: "Check", file: BOARD, container: Impl("Bitboard"), name: $n, what: CHECK } }; }

/// constant used by the bit-manipulating functions (module `MoveBits`)
macro_rules! cb { ($n:literal) => { Target { module: "MoveBits", file: BOARD_CONSTS, container: Free, name: $n, what: What::ConstB } }; }
/// accessor / setter / predicate of `impl Move` (module `MoveBits`)
macro_rules! mv { ($n:literal) => { Target { module: "MoveBits", file: BOARD, container: Impl("Move"), name: $n, what: BITS } }; }

/// constant used by the move generator (module `Generate`)
macro_rules! gc { ($n:literal) => { Target { module: "Generate", file: BOARD_CONSTS, container: Free, name: $n, what: What::ConstB } }; }
/// function of the move generator (module `Generate`)
macro_rules! gen { ($n:literal) => { Target { module: "Generate", file: BOARD, container: Impl("Bitboard"), name: $n, what: CHECK } }; }

pub const TARGETS: &[Target] = &[
    // ---- Board
    Target { module: "Board", file: BOARD_CONSTS, container: Free, name: "WHITE", what: What::Const },
    Target { module: "Board", file: BOARD_CONSTS, container: Free, name: "BLACK", what: What::Const },
    Target { module: "Board", file: BOARD, container: Impl("Bitboard"), name: "ply_clock", what: PLAIN },
    Target { module: "Board", file: BOARD, container: Free, name: "Move", what: What::Struct { bits: false } },
    // ---- ZobristHistory
    Target { module: "ZobristHistory", file: ZH, container: Impl("ZobristHistory"), name: "count_repetitions", what: PLAIN },
    // ---- Uci
    Target { module: "Uci", file: UCI, container: Free, name: "Bound", what: What::Enum },
    Target { module: "Uci", file: UCI, container: Free, name: "Score", what: What::Enum },
    // ---- Heuristic (trait defaults; SimpleHeuristic must not override them)
    Target { module: "Heuristic", file: HEUR, container: Trait("Heuristic"), name: "MAX_FULL_MOVES", what: What::Const },
    Target { module: "Heuristic", file: HEUR, container: Trait("Heuristic"), name: "MAX_HALF_MOVES", what: What::Const },
    Target { module: "Heuristic", file: HEUR, container: Trait("Heuristic"), name: "win_score", what: PLAIN },
    Target { module: "Heuristic", file: HEUR, container: Trait("Heuristic"), name: "loss_score", what: PLAIN },
    Target { module: "Heuristic", file: HEUR, container: Trait("Heuristic"), name: "draw_score", what: PLAIN },
    Target { module: "Heuristic", file: HEUR, container: Trait("Heuristic"), name: "is_checkmate", what: PLAIN },
    Target {
        module: "Heuristic", file: HEUR, container: Trait("Heuristic"), name: "evaluate",
        what: What::Fn {
            opaque: &[
                Opaque { recv: "bitboard", method: "is_current_in_check", ret: "bool" },
                Opaque { recv: "self", method: "evaluate_ongoing", ret: "i32" },
            ],
            vec_list: false, bits: false,
        },
    },
    Target { module: "Heuristic", file: HEUR, container: Trait("Heuristic"), name: "score_from_value", what: PLAIN },
    Target { module: "Heuristic", file: SIMPLE, container: ImplTrait("Heuristic", "SimpleHeuristic"), name: "MAX_FULL_MOVES", what: What::NotOverridden },
    Target { module: "Heuristic", file: SIMPLE, container: ImplTrait("Heuristic", "SimpleHeuristic"), name: "MAX_HALF_MOVES", what: What::NotOverridden },
    Target { module: "Heuristic", file: SIMPLE, container: ImplTrait("Heuristic", "SimpleHeuristic"), name: "win_score", what: What::NotOverridden },
    Target { module: "Heuristic", file: SIMPLE, container: ImplTrait("Heuristic", "SimpleHeuristic"), name: "loss_score", what: What::NotOverridden },
    Target { module: "Heuristic", file: SIMPLE, container: ImplTrait("Heuristic", "SimpleHeuristic"), name: "draw_score", what: What::NotOverridden },
    Target { module: "Heuristic", file: SIMPLE, container: ImplTrait("Heuristic", "SimpleHeuristic"), name: "is_checkmate", what: What::NotOverridden },
    Target { module: "Heuristic", file: SIMPLE, container: ImplTrait("Heuristic", "SimpleHeuristic"), name: "evaluate", what: What::NotOverridden },
    Target { module: "Heuristic", file: SIMPLE, container: ImplTrait("Heuristic", "SimpleHeuristic"), name: "score_from_value", what: What::NotOverridden },
    // ---- Square
    Target { module: "Square", file: CORE_CONSTS, container: Free, name: "to_square_index_from_indices", what: PLAIN },
    Target {
        module: "Square", file: SQUARE, container: Impl("Square"), name: "from_indices",
        what: What::Fn { opaque: &[Opaque { recv: "Self", method: "from_index", ret: "Option<Self>" }], vec_list: false, bits: false },
    },
    Target { module: "Square", file: SQUARE, container: Impl("Square"), name: "from_chars", what: PLAIN },
    // ---- KillerTable
    Target { module: "KillerTable", file: KILLER, container: Impl("KillerTable"), name: "put", what: What::Fn { opaque: &[], vec_list: true, bits: false } },
    Target { module: "KillerTable", file: KILLER, container: Impl("KillerTable"), name: "get", what: What::Fn { opaque: &[], vec_list: true, bits: false } },
    // ---- MoveOrder
    Target { module: "MoveOrder", file: MOVE_ORDER, container: Impl("MvvLvaMoveOrder"), name: "eval", what: PLAIN },
    Target { module: "MoveOrder", file: MOVE_ORDER, container: Impl("MvvLvaMoveOrder"), name: "move_bonus", what: PLAIN },
    Target {
        module: "MoveOrder", file: MOVE_ORDER, container: ImplTrait("MoveOrder", "MvvLvaMoveOrder"), name: "sort",
        what: What::ClosureFn { method: "sort_by_key", wrapper: Some("Reverse"), arg_ty: "&Move", suffix: "key" },
    },
    // ---- Fen
    Target { module: "Fen", file: FEN, container: Free, name: "FenParseError", what: What::Enum },
    Target { module: "Fen", file: FEN, container: Impl("Fen"), name: "validate_rank", what: PLAIN },
    // ---- Search (time management)
    Target { module: "Search", file: SEARCH, container: Impl("Search"), name: "get_self_time_remaining", what: PLAIN },
    Target { module: "Search", file: SEARCH, container: Impl("Search"), name: "get_self_increment", what: PLAIN },
    Target { module: "Search", file: SEARCH, container: Impl("Search"), name: "calculate_max_thinking_time", what: PLAIN },
    // ---- HashTable (the keyed table behind the transposition table; property C18)
    Target { module: "Table", file: TABLE, container: Impl("HashTable"), name: "new", what: PLAIN },
    Target { module: "Table", file: TABLE, container: Impl("HashTable"), name: "clear", what: PLAIN },
    Target { module: "Table", file: TABLE, container: Impl("HashTable"), name: "put", what: PLAIN },
    Target { module: "Table", file: TABLE, container: Impl("HashTable"), name: "get", what: PLAIN },
    Target { module: "Table", file: TABLE, container: Impl("HashTable"), name: "len", what: PLAIN },
    // ---- magic bitboards: index computation and table lookup (property C04)
    Target { module: "Magic", file: MAGIC, container: Free, name: "MagicConfiguration", what: What::Struct { bits: true } },
    Target { module: "Magic", file: MAGIC, container: Free, name: "magic_hash", what: BITS },
    Target { module: "Magic", file: MAGIC, container: Impl("MagicConfiguration"), name: "hash", what: BITS },
    Target { module: "Magic", file: MAGIC, container: Impl("MagicConfiguration"), name: "get_attacks", what: BITS },
    Target { module: "Magic", file: MAGIC, container: ImplTrait("UnsafeMagicsExt", "Magics"), name: "get_attacks", what: BITS },
    // ---- the packed move word: constants, getters, setters, predicates of `impl Move` (properties C02 / C03)
    cb!("NO_PIECE"), cb!("PAWN"), cb!("KNIGHT"), cb!("BISHOP"), cb!("ROOK"), cb!("QUEEN"), cb!("KING"),
    cb!("PIECE_MOVED_MASK"), cb!("PIECE_ATTACKED_MASK"), cb!("SELF_LOST_KING_SIDE_CASTLE_MASK"), cb!("SELF_LOST_QUEEN_SIDE_CASTLE_MASK"),
    cb!("OPPONENT_LOST_KING_SIDE_CASTLE_MASK"), cb!("OPPONENT_LOST_QUEEN_SIDE_CASTLE_MASK"), cb!("CASTLE_MOVE_MASK"), cb!("EN_PASSANT_ATTACK_MASK"),
    cb!("SOURCE_SQUARE_MASK"), cb!("TARGET_SQUARE_MASK"), cb!("HALFMOVE_RESET_MASK"), cb!("PREVIOUS_HALFMOVE_MASK"),
    cb!("PREVIOUS_EN_PASSANT_SQUARE_MASK"), cb!("NEXT_EN_PASSANT_SQUARE_MASK"), cb!("PROMOTION_PIECE_MASK"), cb!("SIDE_TO_MOVE_MASK"),
    cb!("PIECE_MOVED_SHIFT"), cb!("PIECE_ATTACKED_SHIFT"), cb!("SELF_LOST_KING_SIDE_CASTLE_SHIFT"), cb!("SELF_LOST_QUEEN_SIDE_CASTLE_SHIFT"),
    cb!("OPPONENT_LOST_KING_SIDE_CASTLE_SHIFT"), cb!("OPPONENT_LOST_QUEEN_SIDE_CASTLE_SHIFT"), cb!("CASTLE_MOVE_SHIFT"), cb!("EN_PASSANT_ATTACK_SHIFT"),
    cb!("SOURCE_SQUARE_SHIFT"), cb!("TARGET_SQUARE_SHIFT"), cb!("HALFMOVE_RESET_SHIFT"), cb!("PREVIOUS_HALFMOVE_SHIFT"),
    cb!("PREVIOUS_EN_PASSANT_SQUARE_SHIFT"), cb!("NEXT_EN_PASSANT_SQUARE_SHIFT"), cb!("PROMOTION_PIECE_SHIFT"), cb!("SIDE_TO_MOVE_SHIFT"),
    mv!("get_piece_moved"), mv!("get_piece_attacked"), mv!("get_self_lost_king_side_castle"), mv!("get_self_lost_queen_side_castle"),
    mv!("get_opponent_lost_king_side_castle"), mv!("get_opponent_lost_queen_side_castle"), mv!("get_castle_move"), mv!("get_en_passant_attack"),
    mv!("get_source_square"), mv!("get_target_square"), mv!("get_halfmove_reset"), mv!("get_previous_halfmove"),
    mv!("get_previous_en_passant_square"), mv!("get_next_en_passant_square"), mv!("get_promotion_piece"), mv!("get_side_to_move"),
    mv!("set_piece_moved"), mv!("set_piece_attacked"), mv!("set_self_lost_king_side_castle"), mv!("set_self_lost_queen_side_castle"),
    mv!("set_opponent_lost_king_side_castle"), mv!("set_opponent_lost_queen_side_castle"), mv!("set_castle_move"), mv!("set_en_passant_attack"),
    mv!("set_source_square"), mv!("set_target_square"), mv!("set_halfmove_reset"), mv!("set_previous_halfmove"),
    mv!("set_previous_en_passant_square"), mv!("set_next_en_passant_square"), mv!("set_promotion_piece"), mv!("set_side_to_move"),
    mv!("is_self_lost_king_side_castle"), mv!("is_self_lost_queen_side_castle"), mv!("is_opponent_lost_king_side_castle"),
    mv!("is_opponent_lost_queen_side_castle"), mv!("is_en_passant_attack"), mv!("is_castle_move"), mv!("is_halfmove_reset"),
    mv!("is_attack"), mv!("is_promotion"),
    // ---- check detection (`is_valid`, `is_current_in_check`, ..; the attack-table lookups are opaque functions)
    Target { module: "Check", file: BOARD, container: Free, name: "PlayerState", what: What::Struct { bits: true } },
    ps!("kings"), ps!("queens"), ps!("rooks"), ps!("bishops"), ps!("knights"), ps!("pawns"), ps!("occupancy"), ps!("full_occupancy"),
    Target { module: "Check", file: BOARD_LIB, container: Free, name: "opposite_color", what: BITS },
    bb!("is_white_turn"), bb!("opposite_turn"), bb!("_is_square_in_check"), bb!("_is_in_check_by_bits"),
    bb!("is_valid"), bb!("is_current_in_check"), bb!("is_in_check"),
    // ---- incremental Zobrist update (the key tables are opaque functions) (property C06)
    cb!("NO_SQUARE"), cb!("A8"), cb!("C8"), cb!("D8"), cb!("E8"), cb!("F8"), cb!("G8"), cb!("H8"),
    cb!("A1"), cb!("C1"), cb!("D1"), cb!("E1"), cb!("F1"), cb!("G1"), cb!("H1"),
    Target { module: "ZobristXor", file: BOARD, container: Impl("Bitboard"), name: "zobrist_xor", what: What::Fn { opaque: ZOBRIST, vec_list: true, bits: true } },
    // ---- make / unmake (properties C02 / C03)
    Target { module: "MakeUnmake", file: BOARD_CONSTS, container: Free, name: "A1_MASK", what: What::ConstB },
    Target { module: "MakeUnmake", file: BOARD_CONSTS, container: Free, name: "D1_MASK", what: What::ConstB },
    Target { module: "MakeUnmake", file: BOARD_CONSTS, container: Free, name: "F1_MASK", what: What::ConstB },
    Target { module: "MakeUnmake", file: BOARD_CONSTS, container: Free, name: "H1_MASK", what: What::ConstB },
    Target { module: "MakeUnmake", file: BOARD_CONSTS, container: Free, name: "A8_MASK", what: What::ConstB },
    Target { module: "MakeUnmake", file: BOARD_CONSTS, container: Free, name: "D8_MASK", what: What::ConstB },
    Target { module: "MakeUnmake", file: BOARD_CONSTS, container: Free, name: "F8_MASK", what: What::ConstB },
    Target { module: "MakeUnmake", file: BOARD_CONSTS, container: Free, name: "H8_MASK", what: What::ConstB },
    Target { module: "MakeUnmake", file: BOARD, container: Impl("PlayerState"), name: "occupancy_ref", what: What::PlaceFn },
    Target { module: "MakeUnmake", file: BOARD, container: Impl("PlayerState"), name: "kings_ref", what: What::PlaceFn },
    Target { module: "MakeUnmake", file: BOARD, container: Impl("PlayerState"), name: "rooks_ref", what: What::PlaceFn },
    Target { module: "MakeUnmake", file: BOARD, container: Impl("PlayerState"), name: "pawns_ref", what: What::PlaceFn },
    Target { module: "MakeUnmake", file: BOARD, container: Impl("Bitboard"), name: "get_active_and_passive_mut", what: What::MutBorrow },
    Target { module: "MakeUnmake", file: BOARD, container: Impl("Bitboard"), name: "make_castle", what: BITS },
    Target { module: "MakeUnmake", file: BOARD, container: Impl("Bitboard"), name: "unmake_castle", what: BITS },
    Target { module: "MakeUnmake", file: BOARD, container: Impl("Bitboard"), name: "make", what: BITS },
    Target { module: "MakeUnmake", file: BOARD, container: Impl("Bitboard"), name: "unmake", what: BITS },
    // ---- `is_move_legal` = make; is_valid; unmake
    Target { module: "Legal", file: BOARD, container: Impl("Bitboard"), name: "is_move_legal", what: CHECK },
    // ---- the move constructor `make_move` of the generator (side effects of a move computed at generation time) (C01 / C02)
    Target { module: "MoveCtor", file: BOARD, container: Impl("PlayerState"), name: "get_piece_const_by_square_mask", what: BITS },
    Target { module: "MoveCtor", file: BOARD, container: Impl("PlayerState"), name: "get_piece_const_by_square_shift", what: BITS },
    Target { module: "MoveCtor", file: BOARD, container: Impl("Bitboard"), name: "PIECE_VALUES", what: What::Const },
    Target { module: "MoveCtor", file: BOARD, container: Impl("Bitboard"), name: "mvv_lva", what: BITS },
    Target { module: "MoveCtor", file: BOARD, container: Impl("Bitboard"), name: "make_move", what: BITS },
    // ---- the pseudo-legal move generator (C01); the attack tables are opaque lookup functions
    gc!("B8"), gc!("A7"), gc!("B7"), gc!("C7"), gc!("D7"), gc!("E7"), gc!("F7"), gc!("G7"), gc!("H7"),
    gc!("A2"), gc!("B2"), gc!("C2"), gc!("D2"), gc!("E2"), gc!("F2"), gc!("G2"), gc!("H2"), gc!("B1"),
    gc!("B8_MASK"), gc!("C8_MASK"), gc!("E8_MASK"), gc!("G8_MASK"),
    gc!("A7_MASK"), gc!("B7_MASK"), gc!("C7_MASK"), gc!("D7_MASK"), gc!("E7_MASK"), gc!("F7_MASK"), gc!("G7_MASK"), gc!("H7_MASK"),
    gc!("A2_MASK"), gc!("B2_MASK"), gc!("C2_MASK"), gc!("D2_MASK"), gc!("E2_MASK"), gc!("F2_MASK"), gc!("G2_MASK"), gc!("H2_MASK"),
    gc!("B1_MASK"), gc!("C1_MASK"), gc!("E1_MASK"), gc!("G1_MASK"),
    gc!("WHITE_QUEEN_SIDE_CASTLE_EMPTY_OCCUPANCY"), gc!("WHITE_KING_SIDE_CASTLE_EMPTY_OCCUPANCY"),
    gc!("BLACK_QUEEN_SIDE_CASTLE_EMPTY_OCCUPANCY"), gc!("BLACK_KING_SIDE_CASTLE_EMPTY_OCCUPANCY"),
    gc!("WHITE_QUEEN_SIDE_CASTLE_CHECK_OCCUPANCY"), gc!("WHITE_KING_SIDE_CASTLE_CHECK_OCCUPANCY"),
    gc!("BLACK_QUEEN_SIDE_CASTLE_CHECK_OCCUPANCY"), gc!("BLACK_KING_SIDE_CASTLE_CHECK_OCCUPANCY"),
    gc!("RANK_1_OCCUPANCY"), gc!("RANK_2_OCCUPANCY"), gc!("RANK_7_OCCUPANCY"), gc!("RANK_8_OCCUPANCY"),
    gc!("CASTLE_MOVE_TRUE_MASK"), gc!("CASTLE_MOVE_FALSE_MASK"), gc!("EN_PASSANT_ATTACK_TRUE_MASK"), gc!("EN_PASSANT_ATTACK_FALSE_MASK"),
    Target { module: "Generate", file: BOARD_LIB, container: Free, name: "mask_and_shift_from_lowest_one_bit", what: BITS },
    gen!("get_active_and_passive"), gen!("_is_occupancy_in_check"),
    gen!("generate_attacks"), gen!("sliding_moves"), gen!("single_moves"),
    gen!("generate_pawn_promotion"), gen!("generate_pawn_promotions"), gen!("generate_pawn_attacks"), gen!("pawn_attacks"), gen!("pawn_moves"),
    gen!("make_castle_move"), gen!("castle_moves"),
    gen!("generate_pseudo_legal_moves_with_buffer"), gen!("generate_pseudo_legal_non_quiescent_moves_with_buffer"),
    gen!("generate_pseudo_legal_moves"), gen!("generate_pseudo_legal_non_quiescent_moves"),
    // ---- the legality filter over generated moves (`is_move_legal` = make; is_valid; unmake modifies `self`)
    Target { module: "GenerateLegal", file: BOARD, container: Impl("Bitboard"), name: "generate_legal_moves", what: CHECK },
    Target { module: "GenerateLegal", file: BOARD, container: Impl("Bitboard"), name: "is_any_move_legal", what: CHECK },
    // ---- FEN text: the `Fen` value (text + byte ranges of the regex groups), its getters (4-field defaults) (C12)
    Target { module: "FenText", file: FEN, container: Free, name: "Fen", what: What::Struct { bits: true } },
    Target { module: "FenText", file: FEN, container: Impl("Fen"), name: "get_piece_placement", what: PLAIN },
    Target { module: "FenText", file: FEN, container: Impl("Fen"), name: "get_active_color", what: PLAIN },
    Target { module: "FenText", file: FEN, container: Impl("Fen"), name: "get_castling_availability", what: PLAIN },
    Target { module: "FenText", file: FEN, container: Impl("Fen"), name: "get_en_passant_target_square", what: PLAIN },
    Target { module: "FenText", file: FEN, container: Impl("Fen"), name: "get_halfmove_clock", what: PLAIN },
    Target { module: "FenText", file: FEN, container: Impl("Fen"), name: "get_fullmove_clock", what: PLAIN },
    // ---- FEN -> board: `FenParseExt for Fen`, `From<&Fen> for Bitboard` (C12)
    Target { module: "FenDecode", file: BOARD_CONSTS, container: Free, name: "square_shift_from_index", what: BITS },
    Target { module: "FenDecode", file: BOARD_CONSTS, container: Free, name: "square_mask_from_index", what: BITS },
    Target { module: "FenDecode", file: BOARD_CONSTS, container: Free, name: "square_shift_from_fen_unchecked", what: BITS },
    Target { module: "FenDecode", file: BOARD, container: Impl("PlayerState"), name: "queens_ref", what: What::PlaceFn },
    Target { module: "FenDecode", file: BOARD, container: Impl("PlayerState"), name: "bishops_ref", what: What::PlaceFn },
    Target { module: "FenDecode", file: BOARD, container: Impl("PlayerState"), name: "knights_ref", what: What::PlaceFn },
    Target { module: "FenDecode", file: BOARD, container: ImplTrait("FenParseExt", "Fen"), name: "parse_turn", what: BITS },
    Target { module: "FenDecode", file: BOARD, container: ImplTrait("FenParseExt", "Fen"), name: "parse_en_passant_square_shift", what: BITS },
    Target { module: "FenDecode", file: BOARD, container: ImplTrait("FenParseExt", "Fen"), name: "parse_fullmove_clock", what: BITS },
    Target { module: "FenDecode", file: BOARD, container: ImplTrait("FenParseExt", "Fen"), name: "parse_halfmove_clock", what: BITS },
    Target { module: "FenDecode", file: BOARD, container: ImplTrait("FenParseExt", "Fen"), name: "parse_player_states", what: BITS },
    Target { module: "FenDecode", file: BOARD, container: ImplTrait("From<&Fen>", "Bitboard"), name: "from", what: BITS },
    // ---- `Fen::from_str`: everything but the regex match (`Fen::parse`, opaque): `validate_ranks`, the clock checks, the `Fen` value (C12)
    Target { module: "FenFromStr", file: FEN, container: Impl("Fen"), name: "validate_ranks", what: PLAIN },
    Target {
        module: "FenFromStr", file: FEN, container: ImplTrait("FromStr", "Fen"), name: "from_str",
        what: What::Fn {
            opaque: &[
                Opaque { recv: "Self", method: "default", ret: "Self" },
                Opaque { recv: "Self", method: "parse", ret: "Result<Captures, FenParseError>" },
                Opaque { recv: "Captures", method: "get", ret: "Option<Match>" },
                Opaque { recv: "Match", method: "range", ret: "Range<usize>" },
            ],
            vec_list: false, bits: false,
        },
    },
    // ---- board -> FEN text: `From<&Bitboard> for Fen` (C12); the data tables of `inkayaku_core::constants` (`Square`, `Piece`, `ColoredPiece`) are opaque
    Target {
        module: "FenWrite", file: BOARD, container: Impl("PlayerState"), name: "find_piece_struct_by_square_mask",
        what: What::Fn { opaque: &[Opaque { recv: "Piece", method: "from_index", ret: "Option<Piece>" }], vec_list: true, bits: true },
    },
    Target {
        module: "FenWrite", file: BOARD, container: Impl("Bitboard"), name: "get_colored_piece",
        what: What::Fn {
            opaque: &[
                Opaque { recv: "Piece", method: "from_index", ret: "Option<Piece>" },
                Opaque { recv: "Square", method: "mask", ret: "u64" },
                Opaque { recv: "Piece", method: "to_white", ret: "ColoredPiece" },
                Opaque { recv: "Piece", method: "to_black", ret: "ColoredPiece" },
            ],
            vec_list: true, bits: true,
        },
    },
    Target {
        module: "FenWrite", file: BOARD_LIB, container: Free, name: "square_to_string",
        what: What::Fn { opaque: &[Opaque { recv: "Square", method: "from_index", ret: "Option<Square>" }, Opaque { recv: "Square", method: "fen", ret: "str" }], vec_list: true, bits: true },
    },
    Target {
        module: "FenWrite", file: BOARD, container: ImplTrait("From<&Bitboard>", "Fen"), name: "from",
        what: What::Fn {
            opaque: &[
                Opaque { recv: "Piece", method: "from_index", ret: "Option<Piece>" },
                Opaque { recv: "Square", method: "mask", ret: "u64" },
                Opaque { recv: "Piece", method: "to_white", ret: "ColoredPiece" },
                Opaque { recv: "Piece", method: "to_black", ret: "ColoredPiece" },
                Opaque { recv: "ColoredPiece", method: "fen", ret: "char" },
                Opaque { recv: "Square", method: "from_index", ret: "Option<Square>" },
                Opaque { recv: "Square", method: "fen", ret: "str" },
                Opaque { recv: "Self", method: "default", ret: "Self" },
                Opaque { recv: "Self", method: "parse", ret: "Result<Captures, FenParseError>" },
                Opaque { recv: "Captures", method: "get", ret: "Option<Match>" },
                Opaque { recv: "Match", method: "range", ret: "Range<usize>" },
            ],
            vec_list: true, bits: true,
        },
    },
    // ---- UCI text of a move, `find_uci` / `make_uci` / `make_all_uci` (C13)
    Target {
        module: "UciText", file: BOARD_LIB, container: Free, name: "piece_to_string",
        what: What::Fn { opaque: &[Opaque { recv: "Piece", method: "from_index", ret: "Option<Piece>" }, Opaque { recv: "Piece", method: "fen", ret: "char" }], vec_list: true, bits: true },
    },
    Target { module: "UciText", file: BOARD, container: Impl("Move"), name: "to_uci_string", what: UCI_TEXT },
    Target { module: "FindUci", file: BOARD, container: Free, name: "MoveFromUciError", what: What::Enum },
    Target { module: "FindUci", file: BOARD, container: Impl("Bitboard"), name: "find_uci", what: FIND_UCI },
    Target { module: "FindUci", file: BOARD, container: Impl("Bitboard"), name: "make_uci", what: FIND_UCI },
    Target { module: "MakeAllUci", file: BOARD, container: Impl("Bitboard"), name: "make_all_uci", what: FIND_UCI },
    // ---- `SimpleHeuristic`: material, game stage, piece-square sums, `evaluate_ongoing` (C11); the piece-square tables are opaque values
    Target { module: "Simple", file: SIMPLE, container: Free, name: "QUEEN_VALUE", what: What::Const },
    Target { module: "Simple", file: SIMPLE, container: Free, name: "ROOK_VALUE", what: What::Const },
    Target { module: "Simple", file: SIMPLE, container: Free, name: "BISHOP_VALUE", what: What::Const },
    Target { module: "Simple", file: SIMPLE, container: Free, name: "KNIGHT_VALUE", what: What::Const },
    Target { module: "Simple", file: SIMPLE, container: Free, name: "PAWN_VALUE", what: What::Const },
    Target { module: "Simple", file: BOARD_CONSTS, container: Free, name: "MID", what: What::Const },
    Target { module: "Simple", file: BOARD_CONSTS, container: Free, name: "LATE", what: What::Const },
    Target { module: "Simple", file: SIMPLE, container: Impl("SimpleHeuristic"), name: "piece_value", what: BITS },
    Target { module: "Simple", file: SIMPLE, container: Impl("SimpleHeuristic"), name: "game_stage", what: BITS },
    Target { module: "Simple", file: SIMPLE, container: Impl("SimpleHeuristic"), name: "piece_square_sum", what: BITS },
    Target { module: "Simple", file: SIMPLE, container: Impl("SimpleHeuristic"), name: "piece_square_sum_for_player", what: BITS },
    Target { module: "Simple", file: SIMPLE, container: Impl("SimpleHeuristic"), name: "piece_square_value", what: SIMPLE_TABLES },
    Target { module: "Simple", file: SIMPLE, container: ImplTrait("Heuristic", "SimpleHeuristic"), name: "evaluate_ongoing", what: BITS },
];
