//! The table of translated items, in dependency order.

use crate::world::Container::*;
use crate::world::{Opaque, Target, What};

/// files scanned for `type X = <primitive>;`
pub const ALIAS_FILES: &[&str] = &["board/src/board/constants.rs"];

/// structs whose values are flattened into one parameter per field that is read (name, file)
pub const FLAT_STRUCTS: &[(&str, &str)] = &[
    ("Bitboard", "board/src/board.rs"),
    ("ZobristHistory", "engine_core/src/engine/zobrist_history.rs"),
    ("KillerTable", "engine_core/src/engine/table/killer.rs"),
    ("Search", "engine_core/src/engine/search.rs"),
    ("SearchState", "engine_core/src/engine/search.rs"),
    ("SearchParams", "engine_core/src/engine/search.rs"),
    ("Go", "uci/src/uci.rs"),
];

/// types whose values are only passed around: Lean type variables
pub const OPAQUE_TYPES: &[&str] = &["Square"];

const PLAIN: What = What::Fn { opaque: &[], vec_list: false };

const BOARD_CONSTS: &str = "board/src/board/constants.rs";
const BOARD: &str = "board/src/board.rs";
const ZH: &str = "engine_core/src/engine/zobrist_history.rs";
const UCI: &str = "uci/src/uci.rs";
const HEUR: &str = "engine_core/src/engine/heuristic.rs";
const SIMPLE: &str = "engine_core/src/engine/heuristic/simple.rs";
const CORE_CONSTS: &str = "core/src/constants/mod.rs";
const SQUARE: &str = "core/src/constants/square.rs";
const KILLER: &str = "engine_core/src/engine/table/killer.rs";
const FEN: &str = "core/src/fen.rs";
const SEARCH: &str = "engine_core/src/engine/search.rs";
const MOVE_ORDER: &str = "engine_core/src/engine/move_order.rs";

pub const TARGETS: &[Target] = &[
    // ---- Board
    Target { module: "Board", file: BOARD_CONSTS, container: Free, name: "WHITE", what: What::Const },
    Target { module: "Board", file: BOARD_CONSTS, container: Free, name: "BLACK", what: What::Const },
    Target { module: "Board", file: BOARD, container: Impl("Bitboard"), name: "ply_clock", what: PLAIN },
    Target { module: "Board", file: BOARD, container: Free, name: "Move", what: What::Struct },
    // ---- ZobristHistory
    Target { module: "ZobristHistory", file: ZH, container: Impl("ZobristHistory"), name: "count_repetitions", what: PLAIN },
    // ---- Uci
    Target { module: "Uci", file: UCI, container: Free, name: "Bound", what: What::Enum },
    Target { module: "Uci", file: UCI, container: Free, name: "Score", what: What::Enum },
    // ---- Heuristic (trait defaults; SimpleHeuristic must not override them)
    Target { module: "Heuristic", file: HEUR, container: Trait("Heuristic"), name: "MAX_FULL_MOVES", what: What::Const },
    Target { module: "Heuristic", file: HEUR, container: Trait("Heuristic"), name: "MAX_HALF_MOVES", what: What::Const },
    Target { module: "Heuristic", file: HEUR, container: Trait("Heuristic"), name: "win_score", what: PLAIN },
    Target { module: "Heuristic", file: HEUR, container: Trait("Heuristic"), name: "loss_score", what: PLAIN },
    Target { module: "Heuristic", file: HEUR, container: Trait("Heuristic"), name: "draw_score", what: PLAIN },
    Target { module: "Heuristic", file: HEUR, container: Trait("Heuristic"), name: "is_checkmate", what: PLAIN },
    Target {
        module: "Heuristic", file: HEUR, container: Trait("Heuristic"), name: "evaluate",
        what: What::Fn {
            opaque: &[
                Opaque { recv: "bitboard", method: "is_current_in_check", ret: "bool" },
                Opaque { recv: "self", method: "evaluate_ongoing", ret: "i32" },
            ],
            vec_list: false,
        },
    },
    Target { module: "Heuristic", file: HEUR, container: Trait("Heuristic"), name: "score_from_value", what: PLAIN },
    Target { module: "Heuristic", file: SIMPLE, container: ImplTrait("Heuristic", "SimpleHeuristic"), name: "MAX_FULL_MOVES", what: What::NotOverridden },
    Target { module: "Heuristic", file: SIMPLE, container: ImplTrait("Heuristic", "SimpleHeuristic"), name: "MAX_HALF_MOVES", what: What::NotOverridden },
    Target { module: "Heuristic", file: SIMPLE, container: ImplTrait("Heuristic", "SimpleHeuristic"), name: "win_score", what: What::NotOverridden },
    Target { module: "Heuristic", file: SIMPLE, container: ImplTrait("Heuristic", "SimpleHeuristic"), name: "loss_score", what: What::NotOverridden },
    Target { module: "Heuristic", file: SIMPLE, container: ImplTrait("Heuristic", "SimpleHeuristic"), name: "draw_score", what: What::NotOverridden },
    Target { module: "Heuristic", file: SIMPLE, container: ImplTrait("Heuristic", "SimpleHeuristic"), name: "is_checkmate", what: What::NotOverridden },
    Target { module: "Heuristic", file: SIMPLE, container: ImplTrait("Heuristic", "SimpleHeuristic"), name: "evaluate", what: What::NotOverridden },
    Target { module: "Heuristic", file: SIMPLE, container: ImplTrait("Heuristic", "SimpleHeuristic"), name: "score_from_value", what: What::NotOverridden },
    // ---- Square
    Target { module: "Square", file: CORE_CONSTS, container: Free, name: "to_square_index_from_indices", what: PLAIN },
    Target {
        module: "Square", file: SQUARE, container: Impl("Square"), name: "from_indices",
        what: What::Fn { opaque: &[Opaque { recv: "Self", method: "from_index", ret: "Option<Self>" }], vec_list: false },
    },
    Target { module: "Square", file: SQUARE, container: Impl("Square"), name: "from_chars", what: PLAIN },
    // ---- KillerTable
    Target { module: "KillerTable", file: KILLER, container: Impl("KillerTable"), name: "put", what: What::Fn { opaque: &[], vec_list: true } },
    Target { module: "KillerTable", file: KILLER, container: Impl("KillerTable"), name: "get", what: What::Fn { opaque: &[], vec_list: true } },
    // ---- MoveOrder
    Target { module: "MoveOrder", file: MOVE_ORDER, container: Impl("MvvLvaMoveOrder"), name: "eval", what: PLAIN },
    Target { module: "MoveOrder", file: MOVE_ORDER, container: Impl("MvvLvaMoveOrder"), name: "move_bonus", what: PLAIN },
    Target {
        module: "MoveOrder", file: MOVE_ORDER, container: ImplTrait("MoveOrder", "MvvLvaMoveOrder"), name: "sort",
        what: What::ClosureFn { method: "sort_by_key", wrapper: Some("Reverse"), arg_ty: "&Move", suffix: "key" },
    },
    // ---- Fen
    Target { module: "Fen", file: FEN, container: Free, name: "FenParseError", what: What::Enum },
    Target { module: "Fen", file: FEN, container: Impl("Fen"), name: "validate_rank", what: PLAIN },
    // ---- Search (time management)
    Target { module: "Search", file: SEARCH, container: Impl("Search"), name: "get_self_time_remaining", what: PLAIN },
    Target { module: "Search", file: SEARCH, container: Impl("Search"), name: "get_self_increment", what: PLAIN },
    Target { module: "Search", file: SEARCH, container: Impl("Search"), name: "calculate_max_thinking_time", what: PLAIN },
];
