//! Function and method calls: explicit mapping tables, calls of other translated functions, opaque calls.

use syn::Expr;

use crate::expr::*;
use crate::tr::*;
use crate::types::{IntTy, RTy};
use crate::world::*;

impl<'w> FnTr<'w> {
    pub fn tr_call(&mut self, e: &Expr, c: &syn::ExprCall, exp: Option<&RTy>) -> Res<Ex> {
        let p = match &*c.func { Expr::Path(p) if p.qself.is_none() => p, _ => return Err(self.err(e, "call of a non-path")) };
        let segs: Vec<String> = p.path.segments.iter().map(|s| s.ident.to_string()).collect();
        if p.path.segments.iter().any(|s| !s.arguments.is_none()) { return Err(self.err(e, "call with generic arguments")); }
        let args: Vec<&Expr> = c.args.iter().collect();
        let last = segs.last().unwrap().clone();
        // --- a local closure `let f = |x| body;` called with a plain argument: the body with `x` bound to the argument ---
        if segs.len() == 1 {
            if let Some((_, pname, pty, body)) = self.local_closures.iter().rev().find(|c| c.0 == last).cloned() {
                if args.len() != 1 { return Err(self.err(e, "wrong number of arguments")); }
                let ax = self.tr_expr(args[0], Some(&pty))?;
                if ax.ty != pty || !ax.pure || !ax.atomic { return Err(self.err(e, "the argument of a local closure must be a literal or a variable of the parameter type")); }
                let mark = self.push_scope();
                self.alias(&pname, &ax.text, pty.clone());
                let r = self.tr_expr(&body, exp);
                self.pop_scope(mark);
                return r;
            }
        }
        // --- tuple variant of a registered enum: `InvalidCapture(x)` ---
        if segs.len() <= 2 && self.lookup(&last).is_none() && last.chars().next().map(|c| c.is_uppercase()).unwrap_or(false) && !["Some", "Ok", "Err"].contains(&last.as_str()) {
            let en = if segs.len() == 2 { Some(segs[0].as_str()) } else { None };
            if let Some((en, fields)) = self.find_variant(e, en, &last)? {
                if fields.len() != args.len() || fields.iter().any(|(n, _)| !n.starts_with('_')) { return Err(self.err(e, "tuple-variant constructor with the wrong number of arguments / of a struct variant")); }
                let mut xs = vec![];
                let mut pure = true;
                for (a, (_, fty)) in args.iter().zip(fields.iter()) {
                    let x = self.tr_expr(a, Some(fty))?;
                    if x.ty != *fty { return Err(self.err(e, &format!("argument of type {} where {} is expected", x.ty.rust(), fty.rust()))); }
                    pure &= x.pure;
                    xs.push(x.a());
                }
                let ty = RTy::Enum(en.clone());
                self.note_ty_dep(&ty);
                let mut r = Ex::pure(format!("{}.{} {}", en, last, xs.join(" ")), ty);
                r.pure = pure;
                return Ok(r);
            }
        }
        // --- std functions ---
        if segs.len() == 1 && (last == "max" || last == "min") {
            if self.lookup(&last).is_some() { return Err(self.err(e, "call of a local")); }
            if !self.use_leafs.contains(&last) { return Err(self.err(e, "`max`/`min` not imported from std::cmp in this file")); }
            if args.len() != 2 { return Err(self.err(e, "wrong number of arguments")); }
            let (l, r) = self.operands(args[0], args[1], exp)?;
            if l.ty != r.ty { return Err(self.err(e, "arguments of different types")); }
            self.int_of(e, &l.ty)?;
            let mut x = Ex::pure(format!("{} {} {}", last, l.a(), r.a()), l.ty.clone());
            x.pure = l.pure && r.pure;
            return Ok(x);
        }
        if segs.len() == 1 && last == "Some" {
            if args.len() != 1 { return Err(self.err(e, "wrong number of arguments")); }
            let inner = match exp { Some(RTy::Opt(t)) => Some((**t).clone()), _ => None };
            let x = self.tr_expr(args[0], inner.as_ref())?;
            let mut r = Ex::pure(format!("some {}", x.a()), RTy::Opt(Box::new(x.ty.clone())));
            r.pure = x.pure;
            return Ok(r);
        }
        if segs.len() == 1 && (last == "Ok" || last == "Err") {
            if args.len() != 1 { return Err(self.err(e, "wrong number of arguments")); }
            let (t, er) = match exp { Some(RTy::Res(t, er)) => ((**t).clone(), (**er).clone()), _ => return Err(self.err(e, "cannot determine the type of this `Result` value")) };
            let want = if last == "Ok" { &t } else { &er };
            let x = self.tr_expr(args[0], Some(want))?;
            if &x.ty != want { return Err(self.err(e, &format!("payload of type {} where {} is expected", x.ty.rust(), want.rust()))); }
            let mut r = Ex::pure(format!("{} {}", if last == "Ok" { "Except.ok" } else { "Except.error" }, x.a()), RTy::Res(Box::new(t), Box::new(er)));
            r.pure = x.pure;
            return Ok(r);
        }
        if segs.len() == 2 && last == "from" {
            if let Some(t) = IntTy::from_name(&segs[0]) {
                if args.len() != 1 { return Err(self.err(e, "wrong number of arguments")); }
                let x = self.tr_expr(args[0], None)?;
                return match &x.ty {
                    RTy::Bool => { let mut r = Ex::pure(format!("ofBool {}", x.a()), RTy::Int(t)); r.pure = x.pure; Ok(r) }
                    RTy::Int(s) if (s.signed() == t.signed() && s.bits() <= t.bits()) || (!s.signed() && t.signed() && s.bits() < t.bits()) => {
                        let mut r = x.clone(); r.ty = RTy::Int(t); r.m = None; r.prop = None; Ok(r)
                    }
                    _ => Err(self.err(e, "unsupported `from` conversion")),
                };
            }
        }
        // --- `String::new()`, `char::from_digit(d, 10)` ---
        if segs.len() == 2 && segs[0] == "String" && last == "new" && args.is_empty() { return Ok(Ex::atom("([] : List Char)", RTy::Str)); }
        if segs.len() == 2 && segs[0] == "char" && last == "from_digit" && args.len() == 2 {
            let ok = matches!(strip(args[1]), Expr::Lit(l) if matches!(&l.lit, syn::Lit::Int(i) if i.base10_digits() == "10"));
            if !ok { return Err(self.err(e, "only `char::from_digit(d, 10)` is in the mapping table")); }
            let x = self.tr_expr(args[0], Some(&RTy::Int(IntTy::U32)))?;
            if x.ty != RTy::Int(IntTy::U32) { return Err(self.err(e, "`char::from_digit` of a non-u32")); }
            let mut r = Ex::pure(format!("fromDigit10 {}", x.a()), RTy::Opt(Box::new(RTy::Char)));
            r.pure = x.pure;
            return Ok(r);
        }
        // --- std collections (mapping table: see the header of Prelude.lean) ---
        if segs.len() == 2 && segs[0] == "VecDeque" && last == "new" && args.is_empty() {
            if !self.use_leafs.contains("VecDeque") { return Err(self.err(e, "`VecDeque` is not imported from std::collections in this file")); }
            return Ok(Ex::atom("vdNew", RTy::VecDeque(Box::new(RTy::Infer))));
        }
        if segs.len() == 2 && segs[0] == "HashMap" && (last == "new" || last == "with_hasher") {
            if !self.use_leafs.contains("HashMap") { return Err(self.err(e, "`HashMap` is not imported from std::collections in this file")); }
            let ok = match (last.as_str(), args.len()) {
                ("new", 0) => true,
                // the hasher does not change what the map computes; only this one is accepted
                ("with_hasher", 1) => { use quote::ToTokens; args[0].to_token_stream().to_string().replace(' ', "") == "nohash_hasher::BuildNoHashHasher::default()" }
                _ => false,
            };
            if !ok { return Err(self.err(e, "only `HashMap::new()` / `HashMap::with_hasher(nohash_hasher::BuildNoHashHasher::default())` are in the mapping table")); }
            return Ok(Ex::atom("hmNew", RTy::HashMap(Box::new(RTy::Infer), Box::new(RTy::Infer))));
        }
        // --- `Vec::new()`: the empty list (element type from the first use)
        if segs.len() == 2 && segs[0] == "Vec" && last == "new" && args.is_empty() {
            return Ok(Ex::atom("[]", RTy::VecList(Box::new(RTy::Infer))));
        }
        // --- `T::default()` of a regenerated struct with `#[derive(Default)]`: all fields 0 / false
        if segs.len() == 2 && last == "default" && args.is_empty() {
            if let Some(si) = self.world.structs.get(&segs[0]) {
                if si.lean_module.is_some() {
                    if !si.derives_default { return Err(self.err(e, "`default()` of a struct without `#[derive(Default)]`")); }
                    let mut fs = vec![];
                    for (f, fty) in &si.fields {
                        let ty = self.struct_field_type(fty, &segs[0]).map_err(|m| self.err(e, &m))?;
                        let zero = |t: &RTy| -> Option<&'static str> { match t { RTy::Int(_) => Some("0"), RTy::U64 => Some("(0 : UInt64)"), RTy::Bool => Some("false"), _ => None } };
                        let v = match &ty {
                            // `[T; N]`: N copies of `T::default()`
                            RTy::VecList(el) => {
                                let n: Option<usize> = match fty { syn::Type::Array(a) => match &a.len { Expr::Lit(syn::ExprLit { lit: syn::Lit::Int(i), .. }) => i.base10_parse().ok(), _ => None }, _ => None };
                                match (n, zero(el)) { (Some(n), Some(z)) => format!("List.replicate {} {}", n, z), _ => return Err(self.err(e, "`default()` of an array field whose length is not a literal / whose elements are not integers")) }
                            }
                            t => zero(t).ok_or_else(|| self.err(e, "`default()` of a field that is not an integer / bool / array of those"))?.to_string(),
                        };
                        fs.push(format!("{} := {}", lean_ident(f), v));
                    }
                    let ty = RTy::Struct(segs[0].clone());
                    self.note_ty_dep(&ty);
                    return Ok(Ex::atom(format!("({{ {} }} : {})", fs.join(", "), ty.lean()), ty));
                }
            }
        }
        // --- other translated functions ---
        let ns: Option<String> = match segs.len() {
            1 => None,
            2 if segs[0] == "Self" => self.target.container.ns().map(|s| s.to_string()),
            2 => Some(segs[0].clone()),
            _ => return Err(self.err(e, "unsupported call path")),
        };
        if let Some(info) = self.world.fns.get(&(ns.clone(), last.clone())).cloned() {
            if ns.is_none() && !(self.use_leafs.contains(&last) || self.use_glob || info.module == self.target.module) {
                return Err(self.err(e, "function is registered but not imported by a `use` in this file"));
            }
            return self.call_translated(e, &info, None, &args);
        }
        // --- opaque associated function (listed in the target table with recv = "Self" or the name of another type) ---
        if let What::Fn { opaque, .. } = &self.target.what {
            if segs.len() == 2 {
                if let Some(o) = opaque.iter().find(|o| o.recv == segs[0] && o.method == last) {
                    if segs[0] != "Self" {
                        // `Zobrist::piece_square_hash(..)`: an opaque FUNCTION of the translated arguments
                        if self.world.structs.contains_key(&segs[0]) || self.world.enums.contains_key(&segs[0]) { return Err(self.err(e, "opaque associated function of a registered type")); }
                        if !(self.use_leafs.contains(&segs[0]) || self.use_glob) { return Err(self.err(e, "the type of this opaque associated function is not imported by a `use` in this file")); }
                        let ret = self.opaque_ret(e, o.ret)?;
                        let mut xs = vec![];
                        let mut tys = vec![];
                        for a in &args {
                            let x = self.tr_expr(a, None)?;
                            tys.push(x.ty.lean_atom());
                            xs.push(x);
                        }
                        let name = format!("{}_{}", segs[0], last);
                        let fty = RTy::Opaque(format!("{} → {}", tys.join(" → "), ret.lean()));
                        let n = self.lparam(&name, fty, Origin::ParamMethod(usize::MAX, name.clone()), (usize::MAX - 1, 1, self.lparams.len()))?;
                        let mut r = Ex::pure(format!("{} {}", n, xs.iter().map(|x| x.a()).collect::<Vec<_>>().join(" ")), ret);
                        r.pure = xs.iter().all(|x| x.pure);
                        return Ok(r);
                    }
                    let ret = self.opaque_ret(e, o.ret)?;
                    if args.is_empty() {
                        // `Self::default()`: an opaque VALUE
                        self.note_ty_dep(&ret);
                        let n = self.lparam(&format!("Self_{}", last), ret.clone(), Origin::ParamMethod(usize::MAX, last.clone()), (usize::MAX - 1, 1, self.lparams.len()))?;
                        return Ok(Ex::atom(n, ret));
                    }
                    let mut xs = vec![];
                    let mut tys = vec![];
                    for a in &args {
                        let x = self.tr_expr(a, None)?;
                        tys.push(x.ty.lean_atom());
                        xs.push(x);
                    }
                    self.note_ty_dep(&ret);
                    let fty = RTy::Opaque(format!("{} → {}", tys.join(" → "), ret.lean()));
                    let n = self.lparam(&last, fty, Origin::ParamMethod(usize::MAX, last.clone()), (usize::MAX - 1, 1, self.lparams.len()))?;
                    let mut r = Ex::pure(format!("{} {}", n, xs.iter().map(|x| x.a()).collect::<Vec<_>>().join(" ")), ret);
                    r.pure = xs.iter().all(|x| x.pure);
                    return Ok(r);
                }
            }
        }
        Err(self.err(e, "call of a function that is neither in the mapping table nor registered for translation"))
    }

    fn opaque_ret<T: syn::spanned::Spanned + quote::ToTokens>(&mut self, node: &T, ret: &str) -> Res<RTy> {
        let ty: syn::Type = syn::parse_str(ret).map_err(|_| self.err(node, "bad opaque result type in the table"))?;
        match resolve_type_s(self.world, &ty, self.target.container.ns(), &self.subst, self.bits) {
            Ok(RTy::Flat(n)) => Err(self.err(node, &format!("opaque call returning the flattened struct `{}`", n))),
            Ok(t) => Ok(t),
            Err(m) => Err(self.err(node, &m)),
        }
    }

    pub fn call_translated_pub(&mut self, e: &Expr, info: &FnInfo, recv: Option<&Expr>, args: &[&Expr]) -> Res<Ex> { self.call_translated(e, info, recv, args) }

    /// `recv` = Some(receiver expression) for method calls (Rust parameter 0 of the callee is `self`)
    fn call_translated(&mut self, e: &Expr, info: &FnInfo, recv: Option<&Expr>, args: &[&Expr]) -> Res<Ex> {
        let has_self = info.rust_params.first().map(|s| s == "self").unwrap_or(false);
        // (`*mv` / `&mv` of a variable: the variable)
        fn strip_ref(e: &Expr) -> &Expr {
            match e {
                Expr::Unary(u) if matches!(u.op, syn::UnOp::Deref(_)) && matches!(strip(&u.expr), Expr::Path(_)) => strip_ref(strip(&u.expr)),
                Expr::Paren(p) => strip_ref(&p.expr),
                x => x,
            }
        }
        let rust_arg = |i: usize| -> Option<&Expr> {
            if has_self { if i == 0 { recv } else { args.get(i - 1).copied().map(strip_ref) } } else { args.get(i).copied().map(strip_ref) }
        };
        let expected_args = info.rust_params.len() - if has_self { 1 } else { 0 };
        if args.len() != expected_args { return Err(self.err(e, "wrong number of arguments")); }
        let mut out = vec![];
        let mut pure_args = true;
        let mut inout_names: Vec<String> = vec![];
        for p in &info.params {
            match &p.origin {
                Origin::Fuel => { self.needs_fuel = true; out.push(self.fuel_var.clone()); let f = self.fuel_var.clone(); self.note_use(&f); }
                Origin::Param(i) if info.inout.contains(i) => {
                    // `&mut S` parameter: the argument must be a mutable struct variable; the call statement rebinds it
                    let a = rust_arg(*i).ok_or_else(|| self.err(e, "missing argument"))?;
                    let n = path_ident(a).ok_or_else(|| self.err(e, "a `&mut` struct argument must be a variable"))?;
                    let v = self.lookup(&n).cloned().ok_or_else(|| self.err(e, "unknown variable"))?;
                    if !v.mutable || !v.ty.compat(&p.ty) { return Err(self.err(e, "a `&mut` struct argument must be a mutable variable of that struct type")); }
                    // (`let mut buffer = Vec::new();`: the element type becomes known here)
                    if v.ty != p.ty { if let Some(i) = self.env.iter().rposition(|w| w.rust == n) { self.env[i].ty = p.ty.clone(); } }
                    self.note_use(&v.lean);
                    inout_names.push(v.lean.clone());
                    out.push(v.lean);
                }
                Origin::Param(i) => {
                    let a = rust_arg(*i).ok_or_else(|| self.err(e, "missing argument"))?;
                    let x = self.tr_expr(a, Some(&p.ty))?;
                    if x.ty != p.ty { return Err(self.err(e, &format!("argument of type {} where {} is expected", x.ty.rust(), p.ty.rust()))); }
                    pure_args &= x.pure;
                    out.push(x.a());
                }
                Origin::ParamField(i, f) => {
                    // an argument that is a VALUE of a regenerated struct: the field is a projection
                    if let Some(a) = rust_arg(*i) {
                        // a flattened struct LOCAL: the field is a variable of its own
                        if let Some(an) = path_ident(a) {
                            if matches!(self.lookup(&an).map(|v| (v.ty.clone(), v.param)), Some((RTy::Flat(_), None))) {
                                let v = self.lookup(&format!("{}.{}", an, f)).cloned().ok_or_else(|| self.err(e, "unknown field of a flattened struct local"))?;
                                if v.ty != p.ty { return Err(self.err(e, &format!("field `{}` has type {} in the struct local but {} in the callee", f, v.ty.rust(), p.ty.rust()))); }
                                self.note_use(&v.lean);
                                out.push(v.lean);
                                continue;
                            }
                        }
                        if path_ident(a).as_deref() != Some("self") && self.flat_var(a).is_none() {
                            let x = self.tr_expr(a, None)?;
                            if let RTy::Struct(sn) = &x.ty {
                                if f.contains('.') { return Err(self.err(e, "nested field of a struct value")); }
                                // (a panicking struct-valued argument is evaluated once per field read: harmless in the `Option` monad)
                                let fty = self.world.structs[sn].fields.iter().find(|(n, _)| n == f).map(|(_, t)| t.clone()).ok_or_else(|| self.err(e, "unknown field"))?;
                                let ty = self.struct_field_type(&fty, sn).map_err(|m| self.err(e, &m))?;
                                if ty != p.ty { return Err(self.err(e, &format!("field `{}` has type {} in the struct value but {} in the callee", f, ty.rust(), p.ty.rust()))); }
                                out.push(format!("{}.{}", x.a(), lean_ident(f)));
                                continue;
                            }
                            return Err(self.err(e, "argument of struct type must be a plain parameter or a value of a regenerated struct"));
                        }
                    }
                    // `self.m(..)` inside a trait / impl: the receiver is our own `self`
                    let (var, idx, sname) = self.flat_arg(e, rust_arg(*i), has_self && *i == 0)?;
                    let x = self.flat_field(e, &var, idx, &sname, f)?;
                    out.push(x.a());
                }
                Origin::ParamMethod(i, m) if *i == usize::MAX => {
                    // opaque associated function of the callee: the caller needs the same parameter
                    let n = self.lparam(m, p.ty.clone(), Origin::ParamMethod(usize::MAX, m.clone()), (usize::MAX - 1, 1, self.lparams.len()))?;
                    out.push(n);
                }
                Origin::ParamMethod(i, m) => {
                    let (var, idx, _) = self.flat_arg(e, rust_arg(*i), has_self && *i == 0)?;
                    let pname = if var == "self" { m.clone() } else { format!("{}_{}", var, m) };
                    let n = self.lparam(&pname, p.ty.clone(), Origin::ParamMethod(idx, m.clone()), (idx, 1, self.lparams.len()))?;
                    out.push(n);
                }
            }
        }
        if !pure_args && out.len() > 1 {
            // nested actions are evaluated left to right, like Rust's argument evaluation order: fine
        }
        self.deps.insert(info.module.clone());
        let call = if out.is_empty() { info.lean.clone() } else { format!("{} {}", info.lean, out.join(" ")) };
        if !info.self_mutated.is_empty() && !self.in_call_stmt {
            return Err(self.err(e, "a call of a `&mut self` method that modifies fields is only supported as a statement of its own"));
        }
        if !info.inout.is_empty() {
            // only as a statement of its own (`tr_call_stmt` rebinds the arguments)
            if info.ret != RTy::Unit { return Err(self.err(e, "function with `&mut` struct parameters that also returns a value")); }
            if !self.in_call_stmt { return Err(self.err(e, "a call with `&mut` struct arguments is only supported as a statement of its own")); }
            self.last_inout = inout_names;
        }
        Ok(Ex::monadic(call, info.ret.clone()))
    }

    fn flat_arg(&mut self, e: &Expr, a: Option<&Expr>, is_self: bool) -> Res<(String, usize, String)> {
        match a {
            Some(a) => {
                if let Some(name) = path_ident(a) {
                    if name == "self" {
                        let s = self.self_struct.clone().unwrap_or_default();
                        return Ok(("self".into(), 0, s));
                    }
                }
                self.flat_var(a).ok_or_else(|| self.err(e, "argument of struct type must be a plain parameter"))
            }
            None if is_self => Ok(("self".into(), 0, self.self_struct.clone().unwrap_or_default())),
            None => Err(self.err(e, "missing argument")),
        }
    }

    pub fn tr_method(&mut self, e: &Expr, mc: &syn::ExprMethodCall, exp: Option<&RTy>) -> Res<Ex> {
        let method = mc.method.to_string();
        if mc.turbofish.is_some() && method != "collect" && method != "parse" { return Err(self.err(e, "method call with turbofish")); }
        let args: Vec<&Expr> = mc.args.iter().collect();
        let recv_name = path_ident(&mc.receiver);
        // --- an arm of the `match` of a place alias: the value is the INDEX of the place (`x.pawns_ref()` -> `pawns_ref_index`) ---
        if let (Some((px, psn, pf)), Some(rn)) = (self.place_value_of.clone(), &recv_name) {
            if px == *rn {
                if let Some(pi) = self.world.places.get(&(Some(psn.clone()), method.clone())).cloned() {
                    match &pf { Some(f) if *f != pi.field => return Err(self.err(e, "the arms of a place `match` index different fields")), _ => {} }
                    self.place_value_of = Some((px, psn, Some(pi.field.clone())));
                    return self.call_translated(e, &pi.index_fn, None, &args);
                }
            }
        }
        // --- opaque methods from the table ---
        if let (Some(rn), What::Fn { opaque, .. }) = (&recv_name, &self.target.what) {
            if let Some(o) = opaque.iter().find(|o| o.recv == rn && o.method == method) {
                if rn != "self" && self.lookup(rn).is_none() {
                    // a global (`ROOK_MAGICS.get_attacks(sq, occ)`): an opaque FUNCTION of the translated arguments
                    if !rn.chars().all(|c| c.is_ascii_uppercase() || c == '_' || c.is_ascii_digit()) { return Err(self.err(e, "opaque receiver is neither a parameter nor a global constant")); }
                    if !(self.use_leafs.contains(rn) || self.use_glob) { return Err(self.err(e, "opaque global is not imported by a `use` in this file")); }
                    let ret = self.opaque_ret(e, o.ret)?;
                    let mut xs = vec![];
                    let mut tys = vec![];
                    for a in &args {
                        let x = self.tr_expr(a, None)?;
                        tys.push(x.ty.lean_atom());
                        xs.push(x);
                    }
                    let name = format!("{}_{}", rn, method);
                    let fty = RTy::Opaque(format!("{} → {}", tys.join(" → "), ret.lean()));
                    let n = self.lparam(&name, fty, Origin::ParamMethod(usize::MAX, name.clone()), (usize::MAX - 1, 1, self.lparams.len()))?;
                    let mut r = Ex::pure(format!("{} {}", n, xs.iter().map(|x| x.a()).collect::<Vec<_>>().join(" ")), ret);
                    r.pure = xs.iter().all(|x| x.pure);
                    return Ok(r);
                }
                let idx = if rn == "self" { 0 } else {
                    self.lookup(rn).and_then(|v| v.param).ok_or_else(|| self.err(e, "opaque receiver is not a parameter"))?
                };
                for a in &args {
                    let ok = path_ident(a).and_then(|n| self.lookup(&n).cloned()).map(|v| v.param.is_some() && !v.mutable).unwrap_or(false);
                    if !ok { return Err(self.err(e, "arguments of an opaque call must be unmodified parameters")); }
                }
                let ret = self.opaque_ret(e, o.ret)?;
                let pname = if rn == "self" { method.clone() } else { format!("{}_{}", rn, method) };
                let n = self.lparam(&pname, ret.clone(), Origin::ParamMethod(idx, method.clone()), (idx, 1, self.lparams.len()))?;
                return Ok(Ex::atom(n, ret));
            }
        }
        // --- `self.m(..)`: another translated function of the same container ---
        if recv_name.as_deref() == Some("self") && matches!(self.lookup("self").map(|v| v.ty.clone()), Some(RTy::Flat(_)) | None) {
            let ns = self.target.container.ns().map(|s| s.to_string());
            if let Some(info) = self.world.fns.get(&(ns, method.clone())).cloned() {
                // `if self.is_move_legal(mv) {..}`: a `&mut self` method that returns a value, where the statement allows one
                // side-effecting call to run first: `let (r, fields..) ← call` goes before the statement, the value is `r`
                if !info.self_mutated.is_empty() && info.ret != RTy::Unit && !self.in_call_stmt && self.effect_allowed == Some(mc as *const _) {
                    self.effect_allowed = None;
                    if !info.inout.is_empty() { return Err(self.err(e, "method with both `&mut self` and `&mut` struct parameters")); }
                    let r = self.fresh("r");
                    let mut names = vec![r.clone()];
                    for f in &info.self_mutated { let v = self.self_field_var(e, f)?; self.note_use(&v.lean); names.push(v.lean); }
                    self.in_call_stmt = true;
                    let x = self.call_translated(e, &info, Some(&mc.receiver), &args);
                    self.in_call_stmt = false;
                    let x = x?;
                    let m = x.m.clone().ok_or_else(|| self.err(e, "internal: call is not monadic"))?;
                    self.pending.push(format!("let {} ← {}", crate::stmt::pat_tuple(&names), m));
                    return Ok(Ex::atom(r, info.ret.clone()));
                }
                return self.call_translated(e, &info, Some(&mc.receiver), &args);
            }
            return Err(self.err(e, "method of `self` that is neither opaque (table) nor registered for translation"));
        }
        // --- method of a flattened struct LOCAL (`mv.to_uci_string()` on a list element): another translated function ---
        if let Some(rn) = &recv_name {
            if let Some((RTy::Flat(sname), None)) = self.lookup(rn).map(|v| (v.ty.clone(), v.param)) {
                if let Some(info) = self.world.fns.get(&(Some(sname.clone()), method.clone())).cloned() {
                    return self.call_translated(e, &info, Some(&mc.receiver), &args);
                }
                return Err(self.err(e, &format!("method `{}` of `{}` is neither opaque (table) nor registered for translation", method, sname)));
            }
        }
        // --- method of a flattened struct parameter / of a value of a regenerated struct: another translated function ---
        if let Some((_, _, sname)) = self.flat_var(&mc.receiver) {
            if let Some(info) = self.world.fns.get(&(Some(sname.clone()), method.clone())).cloned() {
                return self.call_translated(e, &info, Some(&mc.receiver), &args);
            }
            return Err(self.err(e, &format!("method `{}` of `{}` is neither opaque (table) nor registered for translation", method, sname)));
        }
        // (only for receivers that are variables / field paths: translating them has no effect on the translator state)
        fn simple(e: &Expr) -> bool { match strip(e) { Expr::Path(_) => true, Expr::Field(f) => simple(&f.base), _ => false } }
        if simple(&mc.receiver) && recv_name.as_deref() != Some("self") {
            if let Ok(r) = self.tr_expr(&mc.receiver, None) {
                if let RTy::Struct(sname) = &r.ty {
                    if let Some(info) = self.world.fns.get(&(Some(sname.clone()), method.clone())).cloned() {
                        return self.call_translated(e, &info, Some(&mc.receiver), &args);
                    }
                    return Err(self.err(e, &format!("method `{}` of `{}` is neither opaque (table) nor registered for translation", method, sname)));
                }
            }
        }
        // --- side-effecting methods of `HashMap` / `VecDeque` fields of `&mut self` ---
        if crate::stmt::MUTATING_METHODS.contains(&method.as_str()) && crate::stmt::self_field(&mc.receiver).is_some() {
            let r = self.tr_expr(&mc.receiver, None)?;
            if matches!(r.ty, RTy::HashMap(_, _) | RTy::VecDeque(_)) { return self.tr_effect_call(e, mc, false); }
        }
        // --- `ITER.map(F).find(P)` with an `F` that can panic (a translated function): iterator adaptors are lazy (`iterMapFind`) ---
        if method == "find" && args.len() == 1 {
            if let Expr::MethodCall(mm) = strip(&mc.receiver) {
                if mm.method == "map" && mm.args.len() == 1 && mm.turbofish.is_none() {
                    if let Some(r) = self.tr_map_find(e, &mm.receiver, &mm.args[0], args[0])? { return Ok(r); }
                }
            }
        }
        // --- mapping table on primitive receivers ---
        let recv = self.tr_expr(&mc.receiver, None)?;
        // an OPAQUE method / field accessor of a value of an opaque type (`captures.get(i)`, `m.range()`): an opaque FUNCTION
        // parameter `Type_method` applied to the value and the translated arguments
        if let (RTy::Opaque(tn), What::Fn { opaque, .. }) = (&recv.ty, &self.target.what) {
            if let Some(base) = tn.strip_suffix('T') {
                if let Some(o) = opaque.iter().find(|o| o.recv == base && o.method == method) {
                    let ret = self.opaque_ret(e, o.ret)?;
                    self.note_ty_dep(&ret);
                    let want: Vec<&str> = crate::targets::OPAQUE_ARGS.iter().find(|(r, m, _)| *r == base && *m == method).map(|t| t.2.to_vec()).unwrap_or_default();
                    if want.len() != args.len() { return Err(self.err(e, "wrong number of arguments for this opaque method (table `OPAQUE_ARGS`)")); }
                    let mut xs = vec![recv.clone()];
                    let mut tys = vec![recv.ty.lean_atom()];
                    for (a, w) in args.iter().zip(want.iter()) {
                        let wt: syn::Type = syn::parse_str(w).map_err(|_| self.err(e, "bad argument type in the table"))?;
                        let wt = self.resolve_type(&wt)?;
                        let x = self.tr_expr(a, Some(&wt))?;
                        if x.ty != wt { return Err(self.err(e, &format!("argument of type {} where {} is expected", x.ty.rust(), wt.rust()))); }
                        tys.push(x.ty.lean_atom());
                        xs.push(x);
                    }
                    let name = format!("{}_{}", base, method);
                    let fty = RTy::Opaque(format!("{} → {}", tys.join(" → "), ret.lean()));
                    let n = self.lparam(&name, fty, Origin::ParamMethod(usize::MAX, name.clone()), (usize::MAX - 1, 1, self.lparams.len()))?;
                    let mut r = Ex::pure(format!("{} {}", n, xs.iter().map(|x| x.a()).collect::<Vec<_>>().join(" ")), ret);
                    r.pure = xs.iter().all(|x| x.pure);
                    return Ok(r);
                }
            }
        }
        // `it.next()` on a mutable local iterator: the iterator is advanced BEFORE the statement the call occurs in (only where
        // that is the evaluation order: head of a `let` initialiser / first `if` condition)
        if let (RTy::Iter(t), "next", true) = (&recv.ty, method.as_str(), args.is_empty()) {
            let n = recv_name.clone().ok_or_else(|| self.err(e, "`next` on something that is not a local iterator variable"))?;
            let v = self.lookup(&n).cloned().ok_or_else(|| self.err(e, "unknown variable"))?;
            if !v.mutable { return Err(self.err(e, "`next` on an immutable iterator")); }
            if self.effect_allowed != Some(mc as *const _) { return Err(self.err(e, "`next` in an unsupported position (supported: the head of the method chain that is a whole `let` initialiser / first `if` condition)")); }
            self.effect_allowed = None;
            let r = self.fresh("item");
            self.note_use(&v.lean);
            self.pending.push(format!("let ({}, {}) := iterNext {}", r, v.lean, v.lean));
            return Ok(Ex::atom(r, RTy::Opt(t.clone())));
        }
        // a value of an OPAQUE TABLE type (`magics.get_attacks(sq, occ)`): its lookup function applied to the arguments
        if let RTy::Table(tn) = &recv.ty {
            let tt = crate::targets::TABLE_TYPES.iter().find(|t| t.0 == tn).ok_or_else(|| self.err(e, "bad table type"))?;
            if method != tt.1 || args.len() != tt.2.len() { return Err(self.err(e, &format!("only `{}` with {} argument(s) may be called on a value of the opaque table type `{}`", tt.1, tt.2.len(), tn))); }
            let mut xs = vec![];
            for (a, at) in args.iter().zip(tt.2.iter()) {
                let want: syn::Type = syn::parse_str(at).map_err(|_| self.err(e, "bad argument type in the table"))?;
                let want = self.resolve_type(&want)?;
                let x = self.tr_expr(a, Some(&want))?;
                if x.ty != want { return Err(self.err(e, &format!("argument of type {} where {} is expected", x.ty.rust(), want.rust()))); }
                xs.push(x);
            }
            let ret: syn::Type = syn::parse_str(tt.3).map_err(|_| self.err(e, "bad result type in the table"))?;
            let ret = self.resolve_type(&ret)?;
            let mut r = Ex::pure(format!("{} {}", recv.a(), xs.iter().map(|x| x.a()).collect::<Vec<_>>().join(" ")), ret);
            r.pure = recv.pure && xs.iter().all(|x| x.pure);
            return Ok(r);
        }
        // a value of a regenerated struct computed by an expression (`self.get_unchecked(i).get_attacks(occ)`)
        if let RTy::Struct(sname) = &recv.ty {
            if let Some(info) = self.world.fns.get(&(Some(sname.clone()), method.clone())).cloned() {
                return self.call_translated(e, &info, Some(&mc.receiver), &args);
            }
            return Err(self.err(e, &format!("method `{}` of `{}` is neither opaque (table) nor registered for translation", method, sname)));
        }
        let one_int_arg = |this: &mut Self, t: &RTy| -> Res<Ex> {
            if args.len() != 1 { return Err(this.err(e, "wrong number of arguments")); }
            let x = this.tr_expr(args[0], Some(t))?;
            if &x.ty != t { return Err(this.err(e, &format!("argument of type {} where {} is expected", x.ty.rust(), t.rust()))); }
            Ok(x)
        };
        match (&recv.ty, method.as_str()) {
            (RTy::U64, "trailing_zeros") | (RTy::U64, "leading_zeros") | (RTy::U64, "count_ones") if args.is_empty() => {
                let f = match method.as_str() { "trailing_zeros" => "u64Tz", "leading_zeros" => "u64Lz", _ => "u64Popcnt" };
                let mut r = Ex::pure(format!("{} {}", f, recv.a()), RTy::Int(IntTy::U32));
                r.pure = recv.pure;
                Ok(r)
            }
            (RTy::U64, "wrapping_mul") | (RTy::U64, "wrapping_add") | (RTy::U64, "wrapping_sub") => {
                let x = one_int_arg(self, &RTy::U64)?;
                let op = match method.as_str() { "wrapping_mul" => "*", "wrapping_add" => "+", _ => "-" };
                let mut r = Ex::pure(format!("{} {} {}", recv.a(), op, x.a()), RTy::U64);
                r.pure = recv.pure && x.pure;
                Ok(r)
            }
            (RTy::U64, "overflowing_mul") => {
                let x = one_int_arg(self, &RTy::U64)?;
                let mut r = Ex::atom(format!("(u64OverflowingMul {} {})", recv.a(), x.a()), RTy::Tuple(vec![RTy::U64, RTy::Bool]));
                r.pure = recv.pure && x.pure;
                Ok(r)
            }
            // `get_unchecked` is translated as a CHECKED access: `none` = undefined behaviour
            (RTy::VecList(el), "get_unchecked") => {
                let x = one_int_arg(self, &RTy::Int(IntTy::Usize))?;
                Ok(Ex::monadic(format!("vecIdx {} {}", recv.a(), x.a()), (**el).clone()))
            }
            (RTy::Int(t), "saturating_sub") | (RTy::Int(t), "saturating_add") | (RTy::Int(t), "wrapping_sub") | (RTy::Int(t), "wrapping_add")
            | (RTy::Int(t), "max") | (RTy::Int(t), "min") => {
                let x = one_int_arg(self, &recv.ty)?;
                let f = match method.as_str() {
                    "saturating_sub" => format!("satSub {}", t.lean()), "saturating_add" => format!("satAdd {}", t.lean()),
                    "wrapping_sub" => format!("wrappingSub {}", t.lean()), "wrapping_add" => format!("wrappingAdd {}", t.lean()),
                    "max" => "max".to_string(), _ => "min".to_string(),
                };
                let mut r = Ex::pure(format!("{} {} {}", f, recv.a(), x.a()), recv.ty.clone());
                r.pure = recv.pure && x.pure;
                Ok(r)
            }
            (RTy::Int(t), "checked_sub") | (RTy::Int(t), "checked_add") => {
                let x = one_int_arg(self, &recv.ty)?;
                let f = if method == "checked_sub" { "checkedSub" } else { "checkedAdd" };
                let mut r = Ex::pure(format!("{} {} {} {}", f, t.lean(), recv.a(), x.a()), RTy::Opt(Box::new(recv.ty.clone())));
                r.pure = recv.pure && x.pure;
                Ok(r)
            }
            (RTy::Int(t), "abs") if args.is_empty() && t.signed() => Ok(Ex::monadic(format!("abs {} {}", t.lean(), recv.a()), recv.ty.clone())),
            (RTy::Int(t), "signum") if args.is_empty() && t.signed() => {
                let mut r = Ex::pure(format!("signum {}", recv.a()), recv.ty.clone());
                r.pure = recv.pure;
                Ok(r)
            }
            (RTy::Char, "to_digit") => {
                let ok = args.len() == 1 && matches!(strip(args[0]), Expr::Lit(l) if matches!(&l.lit, syn::Lit::Int(i) if i.base10_digits() == "10"));
                if !ok { return Err(self.err(e, "only `to_digit(10)` is in the mapping table")); }
                let mut r = Ex::pure(format!("toDigit10 {}", recv.a()), RTy::Opt(Box::new(RTy::Int(IntTy::U32))));
                r.pure = recv.pure;
                Ok(r)
            }
            (RTy::Char, "is_ascii_digit") if args.is_empty() => {
                let mut r = Ex::pure(format!("isAsciiDigit {}", recv.a()), RTy::Bool);
                r.pure = recv.pure;
                Ok(r)
            }
            (RTy::Opt(t), "unwrap_or") => {
                let t = (**t).clone();
                let x = one_int_arg(self, &t)?;
                let mut r = Ex::pure(format!("{}.getD {}", recv.a(), x.a()), t);
                r.pure = recv.pure && x.pure;
                Ok(r)
            }
            (RTy::Opt(_), "copied") | (RTy::Opt(_), "cloned") if args.is_empty() => Ok(recv),
            (RTy::Opt(_), "is_none") | (RTy::Opt(_), "is_some") if args.is_empty() => {
                let mut r = Ex::pure(format!("{}.{}", recv.a(), if method == "is_none" { "isNone" } else { "isSome" }), RTy::Bool);
                r.pure = recv.pure;
                r.atomic = true;
                Ok(r)
            }
            // `None.unwrap()` panics
            (RTy::Opt(t), "unwrap") if args.is_empty() => Ok(Ex::monadic(recv.a(), (**t).clone())),
            (RTy::HashMap(k, v), "get") | (RTy::HashMap(k, v), "contains_key") => {
                let x = one_int_arg(self, k)?;
                let mut r = if method == "get" { Ex::pure(format!("hmGet {} {}", recv.a(), x.a()), RTy::Opt(v.clone())) } else { Ex::pure(format!("(hmGet {} {}).isSome", recv.a(), x.a()), RTy::Bool) };
                r.pure = recv.pure && x.pure;
                Ok(r)
            }
            (RTy::HashMap(_, _), "len") | (RTy::VecDeque(_), "len") if args.is_empty() => {
                let mut r = Ex::pure(format!("{} {}", if matches!(recv.ty, RTy::HashMap(_, _)) { "hmLen" } else { "vdLen" }, recv.a()), RTy::Int(IntTy::Usize));
                r.pure = recv.pure;
                Ok(r)
            }
            (RTy::Opt(t), "filter") => {
                let t = (**t).clone();
                if args.len() != 1 { return Err(self.err(e, "wrong number of arguments")); }
                let (v, body) = self.tr_closure1(args[0], &t, Some(&RTy::Bool))?;
                if body.ty != RTy::Bool || !body.pure { return Err(self.err(e, "`filter` predicate must be a bool expression that cannot panic")); }
                let mut r = Ex::pure(format!("{}.filter (fun {} => {})", recv.a(), v, body.text), recv.ty.clone());
                r.pure = recv.pure;
                Ok(r)
            }
            (RTy::Opt(t), "map_or") => {
                let t = (**t).clone();
                if args.len() != 2 { return Err(self.err(e, "wrong number of arguments")); }
                let d = self.tr_expr(args[0], exp)?;
                let (v, body) = self.tr_closure1(args[1], &t, Some(&d.ty))?;
                if body.ty != d.ty || !d.pure { return Err(self.err(e, "`map_or` arguments must have the same type and the default cannot panic")); }
                if !body.pure {
                    // the closure can panic: it only runs on `Some`
                    return Ok(Ex::monadic(format!("(match {} with | some {} => {} | none => pure {})", recv.a(), v, body.as_option_term(), d.a()), d.ty.clone()));
                }
                let mut r = Ex::pure(format!("match {} with | some {} => {} | none => {}", recv.a(), v, body.text, d.a()), d.ty.clone());
                r.pure = recv.pure;
                Ok(r)
            }
            (RTy::Opt(t), "map") => {
                let t = (**t).clone();
                if args.len() != 1 { return Err(self.err(e, "wrong number of arguments")); }
                let (v, body) = self.tr_closure1(args[0], &t, None)?;
                if !body.pure {
                    return Ok(Ex::monadic(format!("optMapM (fun {} => {}) {}", v, body.as_option_term(), recv.a()), RTy::Opt(Box::new(body.ty.clone()))));
                }
                let mut r = Ex::pure(format!("{}.map (fun {} => {})", recv.a(), v, body.text), RTy::Opt(Box::new(body.ty.clone())));
                r.pure = recv.pure;
                Ok(r)
            }
            // `o.map_or_else(String::new, |s| ..)`
            (RTy::Opt(t), "map_or_else") if args.len() == 2 && matches!(strip(args[0]), Expr::Path(p) if p.path.segments.len() == 2 && p.path.segments[0].ident == "String" && p.path.segments[1].ident == "new") => {
                let t = (**t).clone();
                let (v, body) = self.tr_closure1(args[1], &t, Some(&RTy::Str))?;
                if body.ty != RTy::Str || !body.pure { return Err(self.err(e, "`map_or_else(String::new, f)` with an `f` that is not a string expression that cannot panic")); }
                let mut r = Ex::pure(format!("match {} with | some {} => {} | none => ([] : List Char)", recv.a(), v, body.text), RTy::Str);
                r.pure = recv.pure;
                Ok(r)
            }
            // `c.to_string()` on a char: the one-char string
            (RTy::Char, "to_string") if args.is_empty() => {
                let mut r = Ex::pure(format!("[{}]", recv.text), RTy::Str);
                r.pure = recv.pure; r.atomic = true;
                Ok(r)
            }
            // `s.trim()`: Unicode `White_Space` removed at both ends (`strTrim`, defined in the preamble of the module `UciText`)
            (RTy::Str, "trim") if args.is_empty() => {
                self.deps.insert("UciText".to_string());
                let mut r = Ex::pure(format!("strTrim {}", recv.a()), RTy::Str);
                r.pure = recv.pure;
                Ok(r)
            }
            (RTy::Int(t), "to_string") if args.is_empty() && !t.signed() => {
                let mut r = Ex::pure(format!("uintToString {}", recv.a()), RTy::Str);
                r.pure = recv.pure;
                Ok(r)
            }
            (RTy::Res(t, _), "unwrap") if args.is_empty() => Ok(Ex::monadic(format!("resUnwrap {}", recv.a()), (**t).clone())),
            (RTy::VecList(t), "iter") | (RTy::VecList(t), "into_iter") if args.is_empty() => { let mut r = recv.clone(); r.ty = RTy::Iter(t.clone()); Ok(r) }
            (RTy::Iter(t), "filter") => {
                let t = (**t).clone();
                if args.len() != 1 { return Err(self.err(e, "wrong number of arguments")); }
                let (v, body) = self.tr_closure1(args[0], &t, Some(&RTy::Bool))?;
                if body.ty != RTy::Bool || !body.pure { return Err(self.err(e, "`filter` predicate must be a bool expression that cannot panic")); }
                let mut r = Ex::pure(format!("{}.filter (fun {} => {})", recv.a(), v, body.text), recv.ty.clone());
                r.pure = recv.pure;
                Ok(r)
            }
            // `ITER.rev()`: the reversed list of items
            (RTy::Iter(_), "rev") if args.is_empty() => {
                let mut r = Ex::pure(format!("List.reverse {}", recv.a()), recv.ty.clone());
                r.pure = recv.pure;
                Ok(r)
            }
            (RTy::Opt(_), "as_ref") if args.is_empty() => Ok(recv),
            (RTy::Str, "clone") | (RTy::Str, "as_str") if args.is_empty() => Ok(recv),
            // `x.unwrap_or_else(|| panic!(..))` = `x.unwrap()`
            (RTy::Opt(t), "unwrap_or_else") if args.len() == 1 && matches!(args[0], Expr::Closure(c) if c.inputs.is_empty() && matches!(crate::stmt::strip_paren(&c.body), Expr::Macro(m) if m.mac.path.is_ident("panic"))) => Ok(Ex::monadic(recv.a(), (**t).clone())),
            (RTy::Duration, "as_secs") if args.is_empty() => {
                let mut r = Ex::pure(format!("durAsSecs {}", recv.a()), RTy::Int(IntTy::U64));
                r.pure = recv.pure;
                Ok(r)
            }
            (RTy::Duration, "mul_f64") => {
                if args.len() != 1 { return Err(self.err(e, "wrong number of arguments")); }
                let x = self.tr_expr(args[0], Some(&RTy::F64Lit))?;
                if x.ty != RTy::F64Lit || !x.pure { return Err(self.err(e, "`mul_f64` is only in the mapping table for dyadic literal factors")); }
                Ok(Ex::monadic(format!("durMulF64 {} {}", recv.a(), x.a()), RTy::Duration))
            }
            (RTy::Duration, "div") | (RTy::Duration, "mul") => {
                if !self.use_leafs.contains(if method == "div" { "Div" } else { "Mul" }) { return Err(self.err(e, "`div`/`mul` method without `use std::ops::{Div, Mul}`")); }
                let x = one_int_arg(self, &RTy::Int(IntTy::U32))?;
                Ok(Ex::monadic(format!("{} {} {}", if method == "div" { "durDiv" } else { "durMul" }, recv.a(), x.a()), RTy::Duration))
            }
            (RTy::Str, "to_string") | (RTy::Str, "to_owned") if args.is_empty() => Ok(recv),
            (RTy::Str, "len") if args.is_empty() => {
                let mut r = Ex::pure(format!("strLen {}", recv.a()), RTy::Int(IntTy::Usize));
                r.pure = recv.pure;
                Ok(r)
            }
            // `s.parse::<u32>()`: a `Result<u32, ParseIntError>`, represented like an `Option` (`none` = `Err`; `is_err`/`is_ok`/`unwrap`)
            // `s.parse()` where a `Fen` is expected (`impl FromStr for Fen`): the translated `Fen::from_str(&s)`
            (RTy::Str, "parse") if args.is_empty() && mc.turbofish.is_none() => {
                let info = self.world.fns.get(&(Some("Fen".to_string()), "from_str".to_string())).cloned().ok_or_else(|| self.err(e, "`parse()` without a registered `from_str`"))?;
                match (&info.ret, exp) { (RTy::Res(t, _), Some(x)) if **t == *x => {} (RTy::Res(t, _), None) if Some(&**t) == Some(&self.ret) => {} _ => return Err(self.err(e, "`parse()` whose target type is not known to be `Fen`")) }
                self.call_translated(e, &info, None, &[&mc.receiver])
            }
            (RTy::Str, "parse") if args.is_empty() => {
                let ok = match &mc.turbofish { Some(tf) if tf.args.len() == 1 => matches!(&tf.args[0], syn::GenericArgument::Type(ty) if matches!(self.resolve_type(ty), Ok(RTy::Int(IntTy::U32)))), _ => false };
                if !ok { return Err(self.err(e, "only `parse::<u32>()` is in the mapping table")); }
                let mut r = Ex::pure(format!("parseU32 {}", recv.a()), RTy::Opt(Box::new(RTy::Int(IntTy::U32))));
                r.pure = recv.pure;
                Ok(r)
            }
            (RTy::Opt(_), "is_err") | (RTy::Opt(_), "is_ok") if args.is_empty() && matches!(strip(&mc.receiver), Expr::MethodCall(p) if p.method == "parse") => {
                let mut r = Ex::pure(format!("{}.{}", recv.a(), if method == "is_err" { "isNone" } else { "isSome" }), RTy::Bool);
                r.pure = recv.pure;
                r.atomic = true;
                Ok(r)
            }
            (RTy::Str, "contains") => {
                let x = one_int_arg(self, &RTy::Char)?;
                let mut r = Ex::pure(format!("strContains {} {}", recv.a(), x.a()), RTy::Bool);
                r.pure = recv.pure && x.pure;
                Ok(r)
            }
            (RTy::Str, "is_empty") if args.is_empty() => {
                let mut r = Ex::pure(format!("{}.isEmpty", recv.a()), RTy::Bool);
                r.pure = recv.pure; r.atomic = true;
                Ok(r)
            }
            (RTy::Str, "split") => {
                let x = one_int_arg(self, &RTy::Char)?;
                let mut r = Ex::pure(format!("strSplit {} {}", x.a(), recv.a()), RTy::Iter(Box::new(RTy::Str)));
                r.pure = recv.pure && x.pure;
                Ok(r)
            }
            (RTy::Iter(t), "enumerate") if args.is_empty() => {
                let mut r = Ex::pure(format!("iterEnumerate {}", recv.a()), RTy::Iter(Box::new(RTy::Tuple(vec![RTy::Int(IntTy::Usize), (**t).clone()]))));
                r.pure = recv.pure;
                Ok(r)
            }
            (RTy::Char, "is_uppercase") if args.is_empty() => Ok(Ex::monadic(format!("charIsUppercase {}", recv.a()), RTy::Bool)),
            (RTy::Char, "to_ascii_lowercase") if args.is_empty() => {
                let mut r = Ex::pure(format!("charToAsciiLowercase {}", recv.a()), RTy::Char);
                r.pure = recv.pure;
                Ok(r)
            }
            (RTy::Str, "chars") if args.is_empty() => { let mut r = recv.clone(); r.ty = RTy::Iter(Box::new(RTy::Char)); Ok(r) }
            (RTy::Iter(t), "map") => {
                let t = (**t).clone();
                if args.len() != 1 { return Err(self.err(e, "wrong number of arguments")); }
                let (v, body) = self.tr_closure1(args[0], &t, None)?;
                if !body.pure { return Err(self.err(e, "`map` closure that can panic")); }
                let mut r = Ex::pure(format!("{}.map (fun {} => {})", recv.a(), v, body.text), RTy::Iter(Box::new(body.ty.clone())));
                r.pure = recv.pure;
                Ok(r)
            }
            (RTy::Iter(t), "sum") if args.is_empty() => {
                let it = self.int_of(e, t)?;
                if let Some(x) = exp { if x != &**t { return Err(self.err(e, &format!("`sum` of {} items into {}", t.rust(), x.rust()))); } }
                Ok(Ex::monadic(format!("iterSum {} {}", it.lean(), recv.a()), (**t).clone()))
            }
            (RTy::Iter(t), "collect") if args.is_empty() => {
                let want = match &mc.turbofish {
                    Some(tf) if tf.args.len() == 1 => match &tf.args[0] { syn::GenericArgument::Type(ty) => self.resolve_type(ty)?, _ => return Err(self.err(e, "unsupported turbofish")) },
                    _ => match exp { Some(x) => x.clone(), None => return Err(self.err(e, "`collect` without a target type")) },
                };
                if want == RTy::Str {
                    // `collect::<String>()` of chars
                    if **t != RTy::Char { return Err(self.err(e, "`collect::<String>()` of items that are not chars")); }
                    let mut r = recv.clone();
                    r.ty = RTy::Str;
                    return Ok(r);
                }
                let el = match want { RTy::VecFn(el) | RTy::VecList(el) => el, _ => return Err(self.err(e, "`collect` into something that is not a Vec")) };
                if el != *t { return Err(self.err(e, "`collect` element type mismatch")); }
                let mut r = recv.clone();
                r.ty = RTy::VecList(el);
                Ok(r)
            }
            (RTy::VecList(t), "get") => {
                let x = one_int_arg(self, &RTy::Int(IntTy::Usize))?;
                let mut r = Ex::pure(format!("vecGet {} {}", recv.a(), x.a()), RTy::Opt(t.clone()));
                r.pure = recv.pure && x.pure;
                Ok(r)
            }
            (RTy::VecList(_), "len") if args.is_empty() => {
                let mut r = Ex::pure(format!("vecLen {}", recv.a()), RTy::Int(IntTy::Usize));
                r.pure = recv.pure;
                Ok(r)
            }
            _ => Err(self.err(e, &format!("method `{}` on {} is not in the mapping table", method, recv.ty.rust()))),
        }
    }

    /// `ITER.map(F).find(P)`: `F` a path to a translated function of one argument (`Self::validate_rank`), `P` `Result::is_err` /
    /// `Result::is_ok` or a pure closure
    fn tr_map_find(&mut self, e: &Expr, iter: &Expr, f: &Expr, p: &Expr) -> Res<Option<Ex>> {
        let fp = match strip(f) { Expr::Path(fp) if fp.qself.is_none() && fp.path.segments.len() <= 2 => fp, _ => return Ok(None) };
        let segs: Vec<String> = fp.path.segments.iter().map(|s| s.ident.to_string()).collect();
        let ns: Option<String> = match segs.len() { 1 => None, _ if segs[0] == "Self" => self.target.container.ns().map(|s| s.to_string()), _ => Some(segs[0].clone()) };
        let info = match self.world.fns.get(&(ns, segs.last().unwrap().clone())).cloned() { Some(i) => i, None => return Ok(None) };
        if info.rust_params.len() != 1 || info.rust_params[0] == "self" || !info.inout.is_empty() || !info.self_mutated.is_empty() { return Err(self.err(e, "`map` with a function that does not take exactly one plain argument")); }
        let base = self.tr_expr(iter, None)?;
        let el = match &base.ty { RTy::Iter(t) | RTy::VecList(t) => (**t).clone(), _ => return Err(self.err(e, "`map` on something that is not an iterator")) };
        let mark = self.push_scope();
        let v = self.fresh("x");
        self.env.push(Var { rust: v.clone(), lean: v.clone(), ty: el.clone(), depth: self.depth, mutable: false, param: None, declared: true });
        let arg: Expr = syn::parse_str(&v).map_err(|_| self.err(e, "internal: identifier"))?;
        let call = self.call_translated(e, &info, None, &[&arg]);
        self.pop_scope(mark);
        let call = call?;
        let pred = match strip(p) {
            Expr::Path(pp) if pp.path.segments.len() == 2 && pp.path.segments[0].ident == "Result" && (pp.path.segments[1].ident == "is_err" || pp.path.segments[1].ident == "is_ok") => {
                if !matches!(info.ret, RTy::Res(_, _)) { return Err(self.err(e, "`Result::is_err` on items that are not `Result`s")); }
                if pp.path.segments[1].ident == "is_err" { "resIsErr".to_string() } else { "resIsOk".to_string() }
            }
            Expr::Closure(_) => {
                let (b, body) = self.tr_closure1(p, &info.ret, Some(&RTy::Bool))?;
                if body.ty != RTy::Bool || !body.pure { return Err(self.err(e, "`find` predicate must be a bool expression that cannot panic")); }
                format!("(fun {} => {})", b, body.text)
            }
            _ => return Err(self.err(e, "unsupported `find` predicate")),
        };
        let m = call.m.clone().ok_or_else(|| self.err(e, "internal: call is not monadic"))?;
        Ok(Some(Ex::monadic(format!("iterMapFind (fun {} => {}) {} {}", v, m, pred, base.a()), RTy::Opt(Box::new(info.ret.clone())))))
    }

    /// `|x| body` / `|_| body` with one argument of type `t`; returns the Lean binder and the translated body
    pub fn tr_closure1(&mut self, c: &Expr, t: &RTy, exp: Option<&RTy>) -> Res<(String, Ex)> {
        let cl = match c { Expr::Closure(cl) => cl, _ => return Err(self.err(c, "closure expected")) };
        if cl.inputs.len() != 1 || cl.capture.is_some() || cl.asyncness.is_some() { return Err(self.err(c, "unsupported closure form")); }
        let mut pat = &cl.inputs[0];
        while let syn::Pat::Reference(r) = pat { pat = &r.pat; }
        let mark = self.push_scope();
        let binder = match pat {
            syn::Pat::Wild(_) => "_".to_string(),
            syn::Pat::Ident(pi) if pi.subpat.is_none() => self.declare(c, &pi.ident.to_string(), t.clone(), false, None)?,
            _ => { self.pop_scope(mark); return Err(self.err(c, "unsupported closure parameter pattern")); }
        };
        let body = self.tr_expr(&cl.body, exp);
        self.pop_scope(mark);
        Ok((binder, body?))
    }
}
