//! Rust types tracked by the translator.

#[derive(Clone, Copy, PartialEq, Eq, Debug, Hash)]
pub enum IntTy { U8, U16, U32, U64, U128, Usize, I8, I16, I32, I64, I128, Isize }

impl IntTy {
    pub fn from_name(s: &str) -> Option<IntTy> {
        Some(match s {
            "u8" => IntTy::U8, "u16" => IntTy::U16, "u32" => IntTy::U32, "u64" => IntTy::U64, "u128" => IntTy::U128,
            "usize" => IntTy::Usize, "i8" => IntTy::I8, "i16" => IntTy::I16, "i32" => IntTy::I32, "i64" => IntTy::I64,
            "i128" => IntTy::I128, "isize" => IntTy::Isize,
            _ => return None,
        })
    }
    pub fn name(self) -> &'static str {
        match self {
            IntTy::U8 => "u8", IntTy::U16 => "u16", IntTy::U32 => "u32", IntTy::U64 => "u64", IntTy::U128 => "u128",
            IntTy::Usize => "usize", IntTy::I8 => "i8", IntTy::I16 => "i16", IntTy::I32 => "i32", IntTy::I64 => "i64",
            IntTy::I128 => "i128", IntTy::Isize => "isize",
        }
    }
    /// `.i32` etc. (constructor of `Inkayaku.Rs.Ty`)
    pub fn lean(self) -> String { format!(".{}", self.name()) }
    pub fn bits(self) -> u32 {
        match self {
            IntTy::U8 | IntTy::I8 => 8, IntTy::U16 | IntTy::I16 => 16, IntTy::U32 | IntTy::I32 => 32,
            IntTy::U64 | IntTy::I64 | IntTy::Usize | IntTy::Isize => 64, IntTy::U128 | IntTy::I128 => 128,
        }
    }
    pub fn signed(self) -> bool {
        matches!(self, IntTy::I8 | IntTy::I16 | IntTy::I32 | IntTy::I64 | IntTy::I128 | IntTy::Isize)
    }
    /// does the non-negative literal `v` fit?
    pub fn fits_nonneg(self, v: u128) -> bool {
        let b = self.bits() - if self.signed() { 1 } else { 0 };
        b == 128 || v < (1u128 << b)
    }
    /// does `-v` fit?
    pub fn fits_neg(self, v: u128) -> bool {
        if !self.signed() { return v == 0; }
        let b = self.bits() - 1;
        v <= (1u128 << b)
    }
}

#[derive(Clone, PartialEq, Eq, Debug)]
pub enum RTy {
    Int(IntTy),
    Bool,
    Char,
    Unit,
    Opt(Box<RTy>),
    /// `Vec<T>` that is only indexed: a function `Nat → T`
    VecFn(Box<RTy>),
    /// `Vec<T>` as a list
    VecList(Box<RTy>),
    /// enum regenerated from the source
    Enum(String),
    /// plain-data struct regenerated from the source as a Lean structure
    Struct(String),
    /// struct-typed parameter that is flattened into its fields (never a Lean value itself)
    Flat(String),
    /// opaque type parameter (values are only passed around)
    Opaque(String),
    /// `&str` / `String`: the list of its chars
    Str,
    /// `Result<T, E>` = `Except E T`
    Res(Box<RTy>, Box<RTy>),
    /// an iterator (`s.chars()`, `.map(..)`): the list of its items
    Iter(Box<RTy>),
    /// `std::time::Duration`: whole nanoseconds
    Duration,
    /// an `f64` LITERAL that is a dyadic rational (numerator, denominator); no float arithmetic is supported
    F64Lit,
    /// `std::collections::HashMap<K, V, _>`: the prelude's `HMap K V` (association list with distinct keys)
    HashMap(Box<RTy>, Box<RTy>),
    /// `std::collections::VecDeque<T>`: the prelude's `VecDeque T` (a list, head = front)
    VecDeque(Box<RTy>),
    /// type not yet known (`HashMap::with_hasher(..)`, `VecDeque::new()`): Lean infers it (`_`)
    Infer,
    /// `u64` in a bit-manipulating function (`bits: true` in the target table): Lean `UInt64`
    U64,
    /// tuple of values
    Tuple(Vec<RTy>),
    /// value of an OPAQUE TABLE type (`Magics`, `Nonmagics`; `targets::TABLE_TYPES`): represented by its lookup function
    Table(String),
    /// value of a flattened struct stored in a collection (`Vec<Move>` in a bit-manipulating function): the tuple of its
    /// fields in declaration order (struct name, field types)
    Packed(String, Vec<RTy>),
    /// `std::ops::Range<T>` of integers (`start..end`): the pair `(start, end)`
    Range(Box<RTy>),
}

impl RTy {
    pub fn lean(&self) -> String {
        match self {
            RTy::Int(_) => "Int".into(),
            RTy::Bool => "Bool".into(),
            RTy::Char => "Char".into(),
            RTy::Unit => "Unit".into(),
            RTy::Opt(t) => format!("Option {}", t.lean_atom()),
            RTy::VecFn(t) => format!("Nat → {}", t.lean()),
            RTy::VecList(t) => format!("List {}", t.lean_atom()),
            RTy::Enum(n) | RTy::Struct(n) => format!("Inkayaku.Rs.{}", n),
            RTy::Flat(n) => format!("<flattened {}>", n),
            RTy::Opaque(n) => n.clone(),
            RTy::Str => "List Char".into(),
            RTy::Res(t, e) => format!("Except {} {}", e.lean_atom(), t.lean_atom()),
            RTy::Iter(t) => format!("List {}", t.lean_atom()),
            RTy::Duration => "Int".into(),
            RTy::F64Lit => "(Int × Int)".into(),
            RTy::HashMap(k, v) => format!("HMap {} {}", k.lean_atom(), v.lean_atom()),
            RTy::VecDeque(t) => format!("VecDeque {}", t.lean_atom()),
            RTy::Infer => "_".into(),
            RTy::U64 => "UInt64".into(),
            RTy::Tuple(ts) => if ts.is_empty() { "Unit".into() } else { format!("({})", ts.iter().map(|t| t.lean_atom()).collect::<Vec<_>>().join(" × ")) },
            RTy::Table(n) => crate::targets::table_lean_type(n),
            RTy::Packed(_, ts) => if ts.len() == 1 { ts[0].lean() } else { format!("({})", ts.iter().map(|t| t.lean_atom()).collect::<Vec<_>>().join(" × ")) },
            RTy::Range(t) => format!("({} × {})", t.lean_atom(), t.lean_atom()),
        }
    }
    pub fn lean_atom(&self) -> String {
        match self {
            RTy::Opt(_) | RTy::VecFn(_) | RTy::VecList(_) | RTy::Str | RTy::Res(_, _) | RTy::Iter(_) | RTy::HashMap(_, _) | RTy::VecDeque(_) | RTy::Table(_) => format!("({})", self.lean()),
            _ => self.lean(),
        }
    }
    pub fn rust(&self) -> String {
        match self {
            RTy::Int(t) => t.name().into(),
            RTy::Bool => "bool".into(),
            RTy::Char => "char".into(),
            RTy::Unit => "()".into(),
            RTy::Opt(t) => format!("Option<{}>", t.rust()),
            RTy::VecFn(t) | RTy::VecList(t) => format!("Vec<{}>", t.rust()),
            RTy::Enum(n) | RTy::Struct(n) | RTy::Flat(n) | RTy::Opaque(n) => n.clone(),
            RTy::Str => "str".into(),
            RTy::Res(t, e) => format!("Result<{}, {}>", t.rust(), e.rust()),
            RTy::Iter(t) => format!("impl Iterator<Item = {}>", t.rust()),
            RTy::Duration => "Duration".into(),
            RTy::F64Lit => "f64".into(),
            RTy::HashMap(k, v) => format!("HashMap<{}, {}>", k.rust(), v.rust()),
            RTy::VecDeque(t) => format!("VecDeque<{}>", t.rust()),
            RTy::Infer => "_".into(),
            RTy::U64 => "u64".into(),
            RTy::Tuple(ts) => format!("({})", ts.iter().map(|t| t.rust()).collect::<Vec<_>>().join(", ")),
            RTy::Table(n) | RTy::Packed(n, _) => n.clone(),
            RTy::Range(t) => format!("Range<{}>", t.rust()),
        }
    }
    /// equal up to `Infer`
    pub fn compat(&self, other: &RTy) -> bool {
        match (self, other) {
            (RTy::Infer, _) | (_, RTy::Infer) => true,
            (RTy::Opt(a), RTy::Opt(b)) | (RTy::VecFn(a), RTy::VecFn(b)) | (RTy::VecList(a), RTy::VecList(b)) | (RTy::Iter(a), RTy::Iter(b)) | (RTy::VecDeque(a), RTy::VecDeque(b)) | (RTy::Range(a), RTy::Range(b)) => a.compat(b),
            (RTy::HashMap(a, b), RTy::HashMap(c, d)) | (RTy::Res(a, b), RTy::Res(c, d)) => a.compat(c) && b.compat(d),
            (RTy::Tuple(a), RTy::Tuple(b)) => a.len() == b.len() && a.iter().zip(b.iter()).all(|(x, y)| x.compat(y)),
            (a, b) => a == b,
        }
    }
    pub fn int(&self) -> Option<IntTy> { if let RTy::Int(t) = self { Some(*t) } else { None } }
}
