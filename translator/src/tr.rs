//! Translation of one Rust function: state, environment, helpers.  Expressions are in `expr.rs`, statements in `stmt.rs`.

use std::collections::{HashMap, HashSet};

use quote::ToTokens;
use syn::spanned::Spanned;

use crate::types::{IntTy, RTy};
use crate::world::*;

#[derive(Clone, Debug)]
pub struct Var {
    pub rust: String,
    pub lean: String,
    pub ty: RTy,
    pub depth: usize,
    pub mutable: bool,
    /// index of the Rust parameter if this is one
    pub param: Option<usize>,
    /// declared by a `let` / parameter (false: pattern alias of another Lean variable)
    pub declared: bool,
}

/// A translated expression. `text` may contain nested actions `(← ..)` and is valid inside a `do` statement.
#[derive(Clone, Debug)]
pub struct Ex {
    pub text: String,
    pub ty: RTy,
    /// no `(← ..)` inside
    pub pure: bool,
    /// identifier / literal / parenthesised
    pub atomic: bool,
    /// if the whole expression is `(← m)`: the `Option`-valued term `m`
    pub m: Option<String>,
    /// if the expression is `decide (p)`: the proposition `p`
    pub prop: Option<String>,
}

impl Ex {
    pub fn atom(text: impl Into<String>, ty: RTy) -> Ex {
        Ex { text: text.into(), ty, pure: true, atomic: true, m: None, prop: None }
    }
    pub fn pure(text: impl Into<String>, ty: RTy) -> Ex {
        Ex { text: text.into(), ty, pure: true, atomic: false, m: None, prop: None }
    }
    /// `(← m)`
    pub fn monadic(m: impl Into<String>, ty: RTy) -> Ex {
        let m = m.into();
        Ex { text: format!("(← {})", m), ty, pure: false, atomic: true, m: Some(m), prop: None }
    }
    /// text usable as an argument
    pub fn a(&self) -> String { if self.atomic { self.text.clone() } else { format!("({})", self.text) } }
    /// condition of an `if`
    pub fn cond(&self) -> String { match &self.prop { Some(p) => p.clone(), None => self.text.clone() } }
    /// `Option`-valued term computing this expression (to be used where a `do` statement is NOT available)
    pub fn as_option_term(&self) -> String {
        if let Some(m) = &self.m { return if m.contains('←') { format!("(do {})", m) } else { format!("({})", m) }; }
        if self.pure { format!("(pure {})", self.a()) } else { format!("(do pure {})", self.a()) }
    }
}

#[derive(Clone, Copy, PartialEq, Eq, Debug)]
pub enum RetMode { Direct, Ctl }

pub struct LoopDef {
    pub name: String,
    pub doc: String,
    pub lines: Vec<String>,
}

pub struct FnTr<'w> {
    pub world: &'w World,
    pub target: &'w Target,
    pub file_path: String,
    pub fn_name: String,
    pub lean_fn: String,
    pub env: Vec<Var>,
    pub depth: usize,
    pub lparams: Vec<LeanParam>,
    pub ret: RTy,
    pub ret_mode: RetMode,
    /// frames recording (lean name, declaration depth) of every variable read
    pub used: Vec<HashSet<String>>,
    pub loops: Vec<LoopDef>,
    pub loop_counter: usize,
    pub needs_fuel: bool,
    /// name of the fuel variable currently in scope
    pub fuel_var: String,
    /// stack of value types of `Value` continuations
    pub value_ty: Vec<Option<RTy>>,
    /// Lean modules referenced
    pub deps: HashSet<String>,
    /// names of all locals ever declared (to detect clashes with generated parameter names)
    pub local_names: HashSet<String>,
    /// number of statement lists emitted through a duplicated continuation
    pub dup_count: usize,
    /// Rust parameter names in order (`self` first if present) and their types
    pub rust_params: Vec<(String, RTy)>,
    pub self_struct: Option<String>,
    pub use_leafs: HashSet<String>,
    pub use_glob: bool,
    pub temp_counter: usize,
    /// fields of `&mut self` that the function modifies (they become part of the result), fixed by a pre-scan
    pub self_mutated: Vec<String>,
    /// parameters of unsupported types (name, reason): an error if the body refers to them
    pub poisoned: Vec<(String, String)>,
    /// generic type parameters of the enclosing `impl` (opaque Lean type variables)
    pub subst: HashMap<String, RTy>,
    /// instantiation of the generic parameters of the `self` struct by the `impl` header (`impl<V> HashTable<ZobristHash, V>`)
    pub struct_subst: HashMap<String, HashMap<String, RTy>>,
    /// statements to emit before the statement being translated (side-effecting calls: `self.map.insert(k, v)`)
    pub pending: Vec<String>,
    /// the one side-effecting method call that may occur in the expression being translated (head of the method chain)
    pub effect_allowed: Option<*const syn::ExprMethodCall>,
    /// `u64` is `UInt64` in this function
    pub bits: bool,
    /// `&mut Struct` parameters (lean names): their final values are part of the result
    pub inout: Vec<String>,
    /// active mutable borrows of fields of `self`: (condition variable, local variables, fields if the condition
    /// holds, fields otherwise); the result of the function writes the locals back
    pub writebacks: Vec<(String, Vec<String>, Vec<String>, Vec<String>)>,
    /// lean names of the `&mut` struct arguments of the call translated last (rebound by the call statement)
    pub last_inout: Vec<String>,
    /// translating the call of a call statement (where `&mut` struct arguments are allowed)
    pub in_call_stmt: bool,
    /// `let x = if C { &mut a } else { &mut b };` (conditional mutable borrow of one of two struct locals): `x` is a copy that is
    /// written back at the end of the block it is declared in
    pub local_borrows: Vec<LocalBorrow>,
    /// `let p = match E { P1 => x.m1_ref(), .., _ => panic!() };` (a place inside the struct local `x`, selected by a `match`)
    pub place_aliases: Vec<PlaceAlias>,
    /// set while the `match` of a place alias is translated: (receiver, its struct, the array field the place methods index)
    pub place_value_of: Option<(String, String, Option<String>)>,
    /// local closures `let f = |x| body;` (name, parameter, parameter type, body)
    pub local_closures: Vec<(String, String, RTy, syn::Expr)>,
    /// the struct literal being translated is the returned value: panicking field initialisers may be bound first (`pending`)
    pub struct_lit_pending_ok: bool,
}

#[derive(Clone, Debug)]
pub struct LocalBorrow { pub depth: usize, pub cond: String, pub var: String, pub then_var: String, pub else_var: String }

#[derive(Clone, Debug)]
pub struct PlaceAlias { pub depth: usize, pub rust: String, pub recv: String, pub field: String, pub index_var: String }

pub const LEAN_KEYWORDS: &[&str] = &[
    "at", "from", "end", "fun", "show", "have", "then", "else", "if", "do", "let", "in", "with", "match", "by", "open",
    "def", "theorem", "instance", "structure", "class", "where", "namespace", "section", "variable", "universe", "import",
    "return", "for", "unless", "mut", "try", "catch", "finally", "using", "obtain", "calc", "suffices", "nomatch", "type",
    "Type", "Prop", "Sort", "set_option", "local", "private", "protected", "deriving", "extends", "mutual", "partial",
    "unsafe", "macro", "syntax", "notation", "infix", "prefix", "postfix", "abbrev", "example", "axiom", "inductive", "λ",
    "fuel", "pure", "some", "none", "max", "min", "chk", "cast", "decide", "abs", "div", "rem", "shl", "shr",
];

pub fn lean_ident(s: &str) -> String {
    if LEAN_KEYWORDS.contains(&s) { format!("{}_", s) } else { s.to_string() }
}

pub fn indent(lines: Vec<String>, n: usize) -> Vec<String> {
    let pad = " ".repeat(n);
    lines.into_iter().map(|l| if l.is_empty() { l } else { format!("{}{}", pad, l) }).collect()
}

impl<'w> FnTr<'w> {
    pub fn err<T: Spanned + ToTokens>(&self, node: &T, msg: &str) -> String {
        let s = node.span().start();
        let mut code = node.to_token_stream().to_string();
        if code.len() > 100 { code.truncate(100); code.push_str(" .."); }
        format!("{}:{}: fn {}: {}: `{}`", self.file_path, s.line, self.fn_name, msg, code)
    }

    pub fn err_plain(&self, msg: &str) -> String {
        format!("{}: fn {}: {}", self.file_path, self.fn_name, msg)
    }

    // ---------- environment ----------

    pub fn lookup(&self, rust: &str) -> Option<&Var> { self.env.iter().rev().find(|v| v.rust == rust) }

    pub fn note_use(&mut self, lean: &str) {
        for f in self.used.iter_mut() { f.insert(lean.to_string()); }
    }

    pub fn declare<T: Spanned + ToTokens>(&mut self, node: &T, rust: &str, ty: RTy, mutable: bool, param: Option<usize>) -> Res<String> {
        let mut lean = lean_ident(rust);
        if let Some(v) = self.lookup(rust) {
            if v.depth < self.depth {
                // shadows a variable of an enclosing block: a fresh Lean name keeps the outer one accessible to the
                // statements after the block (which may be emitted inside this block's `do` sequence)
                loop {
                    self.temp_counter += 1;
                    lean = format!("{}_{}", lean_ident(rust), self.temp_counter);
                    if !self.local_names.contains(&lean) && !self.lparams.iter().any(|p| p.name == lean) { break; }
                }
            } else if v.declared {
                lean = v.lean.clone();
            }
        }
        if self.lparams.iter().any(|p| p.name == lean && !matches!(p.origin, Origin::Param(_))) {
            return Err(self.err(node, &format!("local `{}` clashes with a generated parameter name", rust)));
        }
        self.local_names.insert(lean.clone());
        self.env.push(Var { rust: rust.to_string(), lean: lean.clone(), ty, depth: self.depth, mutable, param, declared: true });
        Ok(lean)
    }

    pub fn alias(&mut self, rust: &str, lean: &str, ty: RTy) {
        self.env.push(Var { rust: rust.to_string(), lean: lean.to_string(), ty, depth: self.depth, mutable: false, param: None, declared: false });
    }

    pub fn push_scope(&mut self) -> usize { self.depth += 1; self.env.len() }
    pub fn pop_scope(&mut self, mark: usize) {
        self.depth -= 1;
        self.env.truncate(mark);
        let d = self.depth;
        self.local_borrows.retain(|b| b.depth <= d);
        self.place_aliases.retain(|b| b.depth <= d);
    }

    pub fn fresh(&mut self, base: &str) -> String {
        loop {
            self.temp_counter += 1;
            let n = format!("{}_{}", base, self.temp_counter);
            if !self.local_names.contains(&n) && !self.lparams.iter().any(|p| p.name == n) && self.lookup(&n).is_none() {
                self.local_names.insert(n.clone());
                return n;
            }
        }
    }

    /// register (once) a generated Lean parameter
    pub fn lparam(&mut self, name: &str, ty: RTy, origin: Origin, key: (usize, usize, usize)) -> Res<String> {
        if let Some(p) = self.lparams.iter().find(|p| p.origin == origin) {
            let n = p.name.clone();
            self.note_use(&n);
            return Ok(n);
        }
        let name = lean_ident(name);
        if self.lparams.iter().any(|p| p.name == name) || self.local_names.contains(&name) {
            return Err(self.err_plain(&format!("generated parameter name `{}` clashes with another name", name)));
        }
        self.lparams.push(LeanParam { name: name.clone(), ty, origin, key });
        self.note_use(&name);
        Ok(name)
    }

    // ---------- types ----------

    pub fn resolve_type(&self, ty: &syn::Type) -> Res<RTy> {
        if self.bits { if let Some(n) = table_type_name(self.world, ty) { return Ok(RTy::Table(n)); } }
        let t = resolve_type_s(self.world, ty, self.target.container.ns(), &self.subst, self.bits).map_err(|m| self.err(ty, &m))?;
        self.pack_elems(t).map_err(|m| self.err(ty, &m))
    }

    /// in a bit-manipulating function a `Vec<S>` / `[S]` of a FLATTENED struct `S` is a list of packed values (tuples of the fields)
    pub fn pack_elems(&self, t: RTy) -> Result<RTy, String> {
        match t {
            RTy::VecFn(el) | RTy::VecList(el) if self.bits && matches!(*el, RTy::Flat(_)) => {
                let n = match *el { RTy::Flat(n) => n, _ => unreachable!() };
                Ok(RTy::VecList(Box::new(self.packed_type(&n)?)))
            }
            // `Result<S, E>` / `Option<S>` of a flattened struct: the packed value
            RTy::Res(t, e) if self.bits && matches!(*t, RTy::Flat(_)) => {
                let n = match *t { RTy::Flat(n) => n, _ => unreachable!() };
                Ok(RTy::Res(Box::new(self.packed_type(&n)?), e))
            }
            RTy::Opt(t) if self.bits && matches!(*t, RTy::Flat(_)) => {
                let n = match *t { RTy::Flat(n) => n, _ => unreachable!() };
                Ok(RTy::Opt(Box::new(self.packed_type(&n)?)))
            }
            t => Ok(t),
        }
    }

    /// the packed form of the flattened struct `n`: the tuple of its fields (primitives only), in declaration order
    pub fn packed_type(&self, n: &str) -> Result<RTy, String> {
        let si = self.world.structs.get(n).ok_or_else(|| format!("struct `{}` is not registered", n))?;
        let mut tys = vec![];
        for (f, fty) in &si.fields {
            let t = self.resolve_field_type(fty, n).map_err(|m| format!("field `{}.{}`: {}", n, f, m))?;
            if !matches!(t, RTy::Int(_) | RTy::Bool | RTy::Char | RTy::U64) { return Err(format!("field `{}.{}`: only primitive fields are supported in a packed struct value", n, f)); }
            tys.push(t);
        }
        if tys.is_empty() { return Err(format!("struct `{}` has no fields", n)); }
        Ok(RTy::Packed(n.to_string(), tys))
    }

    /// type of a field of the struct `sname` (generic parameters instantiated as in the `impl` header)
    pub fn resolve_field_type(&self, ty: &syn::Type, sname: &str) -> Result<RTy, String> {
        let empty = HashMap::new();
        let sub = self.struct_subst.get(sname).unwrap_or(&empty);
        resolve_type_s(self.world, ty, Some(sname), sub, self.bits)
    }

    pub fn ty_lean(&mut self, t: &RTy) -> String {
        self.note_ty_dep(t);
        t.lean()
    }

    pub fn note_ty_dep(&mut self, t: &RTy) {
        match t {
            RTy::Enum(n) => { if let Some(e) = self.world.enums.get(n) { self.deps.insert(e.module.clone()); } }
            RTy::Struct(n) => { if let Some(s) = self.world.structs.get(n) { if let Some(m) = &s.lean_module { self.deps.insert(m.clone()); } } }
            RTy::Opt(t) | RTy::VecFn(t) | RTy::VecList(t) | RTy::Iter(t) | RTy::VecDeque(t) | RTy::Range(t) => self.note_ty_dep(t),
            RTy::Res(t, e) | RTy::HashMap(t, e) => { self.note_ty_dep(t); self.note_ty_dep(e); }
            RTy::Tuple(ts) => for t in ts { self.note_ty_dep(t); },
            _ => {}
        }
    }

    pub fn int_of<T: Spanned + ToTokens>(&self, node: &T, t: &RTy) -> Res<IntTy> {
        t.int().ok_or_else(|| self.err(node, &format!("integer type expected, found {}", t.rust())))
    }
}

/// `&Magics` etc.: the name of the opaque table type (`targets::TABLE_TYPES`) this type denotes
pub fn table_type_name(world: &World, ty: &syn::Type) -> Option<String> {
    match ty {
        syn::Type::Reference(r) => table_type_name(world, &r.elem),
        syn::Type::Paren(p) => table_type_name(world, &p.elem),
        syn::Type::Group(p) => table_type_name(world, &p.elem),
        syn::Type::Path(p) if p.qself.is_none() && p.path.segments.len() == 1 && p.path.segments[0].arguments.is_none() => {
            let n = p.path.segments[0].ident.to_string();
            // (the name must be the alias of the table, not a registered struct / enum / primitive alias of that name)
            if crate::targets::TABLE_TYPES.iter().any(|t| t.0 == n) && world.raw_aliases.contains_key(&n) && !world.structs.contains_key(&n) && !world.enums.contains_key(&n) { Some(n) } else { None }
        }
        _ => None,
    }
}

/// Rust type → tracked type. `self_struct` resolves `Self`.
pub fn resolve_type(world: &World, ty: &syn::Type, self_struct: Option<&str>) -> Result<RTy, String> {
    resolve_type_s(world, ty, self_struct, &HashMap::new(), false)
}

/// `u64` → `UInt64` (bit-manipulating functions)
fn to_bits(world: &World, t: RTy) -> RTy {
    match t {
        RTy::Int(IntTy::U64) => RTy::U64,
        RTy::Opt(t) => RTy::Opt(Box::new(to_bits(world, *t))),
        RTy::VecFn(t) => RTy::VecFn(Box::new(to_bits(world, *t))),
        RTy::VecList(t) => RTy::VecList(Box::new(to_bits(world, *t))),
        RTy::Tuple(ts) => RTy::Tuple(ts.into_iter().map(|t| to_bits(world, t)).collect()),
        RTy::Res(t, e) => RTy::Res(Box::new(to_bits(world, *t)), e),
        // a struct regenerated with `Int` fields (`Move`) is flattened in a bit-manipulating function (its `u64`
        // fields become `UInt64` parameters)
        RTy::Struct(n) if world.structs.get(&n).map(|s| !s.bits).unwrap_or(false) => RTy::Flat(n),
        t => t,
    }
}

/// `subst`: generic type parameters in scope; `bits`: `u64` is `UInt64`
pub fn resolve_type_s(world: &World, ty: &syn::Type, self_struct: Option<&str>, subst: &HashMap<String, RTy>, bits: bool) -> Result<RTy, String> {
    let t = resolve_type_i(world, ty, self_struct, subst)?;
    Ok(if bits { to_bits(world, t) } else { t })
}

fn resolve_type_i(world: &World, ty: &syn::Type, self_struct: Option<&str>, subst: &HashMap<String, RTy>) -> Result<RTy, String> {
    match ty {
        syn::Type::Reference(r) => resolve_type_i(world, &r.elem, self_struct, subst),
        syn::Type::Paren(p) => resolve_type_i(world, &p.elem, self_struct, subst),
        syn::Type::Group(p) => resolve_type_i(world, &p.elem, self_struct, subst),
        syn::Type::Tuple(t) if t.elems.is_empty() => Ok(RTy::Unit),
        syn::Type::Tuple(t) => {
            let mut ts = vec![];
            for e in &t.elems { ts.push(resolve_type_i(world, e, self_struct, subst)?); }
            Ok(RTy::Tuple(ts))
        }
        syn::Type::Slice(s) => Ok(RTy::VecFn(Box::new(resolve_type_i(world, &s.elem, self_struct, subst)?))),
        // `[T; N]`: like a slice (the length is not tracked; indexing is translated bounds-checked in list mode)
        syn::Type::Array(a) => Ok(RTy::VecFn(Box::new(resolve_type_i(world, &a.elem, self_struct, subst)?))),
        // `Self::Err` of a trait impl (table `targets::ASSOC_TYPES`)
        syn::Type::Path(p) if p.qself.is_none() && p.path.segments.len() == 2 && p.path.segments[0].ident == "Self" && self_struct.is_some()
            && crate::targets::ASSOC_TYPES.iter().any(|(s, n, _)| Some(*s) == self_struct && p.path.segments[1].ident == n) => {
            let t = crate::targets::ASSOC_TYPES.iter().find(|(s, n, _)| Some(*s) == self_struct && p.path.segments[1].ident == n).unwrap().2;
            let ty: syn::Type = syn::parse_str(t).map_err(|_| "bad associated type in the table".to_string())?;
            resolve_type_i(world, &ty, self_struct, subst)
        }
        syn::Type::Path(p) if p.qself.is_none() => {
            let seg = p.path.segments.last().ok_or("empty type path")?;
            let name = seg.ident.to_string();
            match &seg.arguments {
                syn::PathArguments::None => {
                    if p.path.segments.len() == 1 { if let Some(t) = subst.get(&name) { return Ok(t.clone()); } }
                    if let Some(t) = IntTy::from_name(&name) { return Ok(RTy::Int(t)); }
                    match name.as_str() {
                        "bool" => return Ok(RTy::Bool),
                        "str" | "String" => return Ok(RTy::Str),
                        "Duration" => return Ok(RTy::Duration),
                        "char" => return Ok(RTy::Char),
                        "Self" => {
                            if let Some(s) = self_struct { return named_type(world, s); }
                            return Err("`Self` outside an impl".into());
                        }
                        _ => {}
                    }
                    if let Some(t) = world.aliases.get(&name) { return Ok(t.clone()); }
                    if !world.structs.contains_key(&name) && !world.enums.contains_key(&name) {
                        if let Some(t) = world.raw_aliases.get(&name) { return resolve_type_i(world, t, self_struct, subst); }
                    }
                    named_type(world, &name)
                }
                syn::PathArguments::AngleBracketed(ab) => {
                    let args: Vec<&syn::Type> = ab.args.iter().filter_map(|a| if let syn::GenericArgument::Type(t) = a { Some(t) } else { None }).collect();
                    if name == "Result" && args.len() == 2 && ab.args.len() == 2 {
                        let t = resolve_type_i(world, args[0], self_struct, subst)?;
                        let e = resolve_type_i(world, args[1], self_struct, subst)?;
                        return Ok(RTy::Res(Box::new(t), Box::new(e)));
                    }
                    if name == "HashMap" && (args.len() == 2 || args.len() == 3) && ab.args.len() == args.len() {
                        // the hasher does not change what the map computes (for lawful `Hash`/`Eq` keys): only the two
                        // hashers the engine uses are accepted
                        if args.len() == 3 {
                            let h = match args[2] { syn::Type::Path(hp) => hp.path.segments.last().map(|s| s.ident.to_string()), _ => None };
                            if !matches!(h.as_deref(), Some("BuildNoHashHasher") | Some("RandomState")) { return Err("HashMap with an unknown hasher type".into()); }
                        }
                        let k = resolve_type_i(world, args[0], self_struct, subst)?;
                        let v = resolve_type_i(world, args[1], self_struct, subst)?;
                        return Ok(RTy::HashMap(Box::new(k), Box::new(v)));
                    }
                    if args.len() != 1 || ab.args.len() != 1 { return Err("unsupported generic type".into()); }
                    let inner = resolve_type_i(world, args[0], self_struct, subst)?;
                    match name.as_str() {
                        "Option" => Ok(RTy::Opt(Box::new(inner))),
                        "Vec" => Ok(RTy::VecFn(Box::new(inner))),
                        "VecDeque" => Ok(RTy::VecDeque(Box::new(inner))),
                        "Range" if matches!(inner, RTy::Int(_)) => Ok(RTy::Range(Box::new(inner))),
                        _ => Err(format!("unsupported generic type `{}`", name)),
                    }
                }
                _ => Err("unsupported type".into()),
            }
        }
        _ => Err("unsupported type".into()),
    }
}

fn named_type(world: &World, name: &str) -> Result<RTy, String> {
    if world.enums.contains_key(name) { return Ok(RTy::Enum(name.to_string())); }
    if let Some(s) = world.structs.get(name) {
        return Ok(if s.lean_module.is_some() { RTy::Struct(name.to_string()) } else { RTy::Flat(name.to_string()) });
    }
    if world.opaque_types.iter().any(|o| o == name) { return Ok(RTy::Opaque(format!("{}T", name))); }
    Err(format!("unknown type `{}` (not a primitive, alias, registered struct or enum)", name))
}
