//! Source files, symbol tables and the list of what is translated.

use std::collections::HashMap;
use std::path::PathBuf;

use crate::types::RTy;

pub type Res<T> = Result<T, String>;

#[derive(Clone, Debug, PartialEq, Eq)]
pub enum Container {
    /// `impl T { .. }`
    Impl(&'static str),
    /// default method / associated const of `trait T { .. }`
    Trait(&'static str),
    /// `impl Tr for T { .. }`
    ImplTrait(&'static str, &'static str),
    /// module level
    Free,
}

impl Container {
    pub fn ns(&self) -> Option<&'static str> {
        match self {
            Container::Impl(t) | Container::Trait(t) | Container::ImplTrait(_, t) => Some(t),
            Container::Free => None,
        }
    }
    pub fn describe(&self) -> String {
        match self {
            Container::Impl(t) => format!("impl {}", t),
            Container::Trait(t) => format!("trait {}", t),
            Container::ImplTrait(tr, t) => format!("impl {} for {}", tr, t),
            Container::Free => "module level".into(),
        }
    }
}

/// How a method call `recv.method(args)` that is not translated is represented.
#[derive(Clone, Debug)]
pub struct Opaque {
    /// name of the receiver variable in the Rust source (`self`, `bitboard`, ..)
    pub recv: &'static str,
    pub method: &'static str,
    /// Rust result type (a primitive)
    pub ret: &'static str,
}

#[derive(Clone, Debug)]
pub enum What {
    Enum,
    /// struct regenerated as a Lean structure (fields: primitives, arrays / slices of primitives);
    /// `bits`: its `u64` fields are Lean `UInt64`s
    Struct { bits: bool },
    Const,
    /// constant used by bit-manipulating functions: `u64` is Lean `UInt64`
    ConstB,
    /// `bits`: bit-manipulating function, `u64` values are Lean `UInt64`s (no range-checked `Int`s)
    Fn { opaque: &'static [Opaque], vec_list: bool, bits: bool },
    /// the body `wrapper(expr)` (or `expr`) of the one-argument closure passed to the method `method` inside the
    /// function `name`, as a function of the closure argument (of type `arg_ty`) and the parameters of `name`;
    /// the Lean name is `<name>_<suffix>`
    ClosureFn { method: &'static str, wrapper: Option<&'static str>, arg_ty: &'static str, suffix: &'static str },
    /// check only: `impl Tr for T` (container) must NOT define the method `name` (the trait default is translated)
    NotOverridden,
    /// `fn m(&mut self) -> (&mut S, &mut S)` whose body is `if COND { (&mut self.a, &mut self.b) } else { (&mut self.b, &mut self.a) }`:
    /// no Lean definition; `let (x, y) = self.m();` in a caller copies the fields in and the caller's result writes them back
    MutBorrow,
    /// `fn m(&mut self, args) -> &mut T` whose body is `&mut self.field[INDEX]`: the Lean definition `m_index` computes the index;
    /// `*x.m(args) op= e` / `*x.m(args) = e` in a caller updates `x.field` at that index
    PlaceFn,
}

#[derive(Clone, Debug)]
pub struct Target {
    /// Lean module (file stem below `Inkayaku/Gen/Rs`)
    pub module: &'static str,
    /// repo-relative Rust source
    pub file: &'static str,
    pub container: Container,
    pub name: &'static str,
    pub what: What,
}

#[derive(Clone, Debug, PartialEq, Eq)]
pub enum Origin {
    /// the Rust parameter with this index itself (primitive type)
    Param(usize),
    /// field of the struct-typed Rust parameter
    ParamField(usize, String),
    /// opaque method of the Rust parameter
    ParamMethod(usize, String),
    Fuel,
}

#[derive(Clone, Debug)]
pub struct LeanParam {
    pub name: String,
    pub ty: RTy,
    pub origin: Origin,
    /// sort key: (rust parameter index, 0 = field / 1 = method, index of the field in the struct / order of use)
    pub key: (usize, usize, usize),
}

#[derive(Clone, Debug)]
pub struct FnInfo {
    pub lean: String,
    pub module: String,
    pub params: Vec<LeanParam>,
    pub ret: RTy,
    /// Rust parameter names, `self` first if present
    pub rust_params: Vec<String>,
    /// indices (into `rust_params`) of the `&mut Struct` parameters: their final values are part of the result
    pub inout: Vec<usize>,
    /// Rust names of the fields of `&mut self` the function modifies (their final values are part of the result, in this order)
    pub self_mutated: Vec<String>,
}

/// a `What::MutBorrow` method
#[derive(Clone, Debug)]
pub struct BorrowInfo {
    pub cond: syn::Expr,
    pub then_fields: Vec<String>,
    pub else_fields: Vec<String>,
}

/// a `What::PlaceFn` method
#[derive(Clone, Debug)]
pub struct PlaceInfo {
    pub field: String,
    pub index_fn: FnInfo,
}

#[derive(Clone, Debug)]
pub struct ConstInfo {
    pub lean: String,
    pub module: String,
    /// repo-relative Rust source the constant is defined in
    pub file: String,
    pub ty: RTy,
    /// `true`: `def X : Int`, `false`: `def X : Option Int`
    pub pure: bool,
}

#[derive(Clone, Debug)]
pub struct EnumInfo {
    pub module: String,
    /// variant name, fields (name, type); a unit variant has no fields
    pub variants: Vec<(String, Vec<(String, RTy)>)>,
}

#[derive(Clone, Debug)]
pub struct StructInfo {
    pub file: String,
    pub fields: Vec<(String, syn::Type)>,
    /// names of the generic type parameters (`struct HashTable<K, V>`)
    pub generics: Vec<String>,
    /// `#[derive(Default)]` present
    pub derives_default: bool,
    /// regenerated as Lean structure (in this module)?
    pub lean_module: Option<String>,
    /// regenerated with `u64` = `UInt64`
    pub bits: bool,
}

pub struct World {
    pub root: PathBuf,
    pub overrides: HashMap<String, PathBuf>,
    pub files: HashMap<String, syn::File>,
    pub aliases: HashMap<String, RTy>,
    /// `type X = T;` items that are not primitive aliases (`type Magics = [MagicConfiguration; 64]`), resolved on demand
    pub raw_aliases: HashMap<String, syn::Type>,
    pub structs: HashMap<String, StructInfo>,
    pub enums: HashMap<String, EnumInfo>,
    pub consts: HashMap<(Option<String>, String), ConstInfo>,
    pub fns: HashMap<(Option<String>, String), FnInfo>,
    pub borrows: HashMap<(Option<String>, String), BorrowInfo>,
    pub places: HashMap<(Option<String>, String), PlaceInfo>,
    /// types whose values are only passed around (become Lean type variables)
    pub opaque_types: Vec<String>,
}

impl World {
    pub fn path_of(&self, rel: &str) -> PathBuf {
        match self.overrides.get(rel) {
            Some(p) => p.clone(),
            None => self.root.join(rel),
        }
    }

    pub fn load(&mut self, rel: &str) -> Res<()> {
        if self.files.contains_key(rel) { return Ok(()); }
        let p = self.path_of(rel);
        let src = std::fs::read_to_string(&p).map_err(|e| format!("{}: cannot read: {}", p.display(), e))?;
        let f = syn::parse_file(&src).map_err(|e| {
            let s = e.span().start();
            format!("{}:{}:{}: Rust syntax error: {}", p.display(), s.line, s.column + 1, e)
        })?;
        self.files.insert(rel.to_string(), f);
        Ok(())
    }

    pub fn file(&self, rel: &str) -> &syn::File { self.files.get(rel).expect("file loaded") }
}
