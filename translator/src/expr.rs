//! Expressions.

use syn::{BinOp, Expr, Lit, UnOp};

use crate::tr::*;
use crate::types::{IntTy, RTy};
use crate::world::*;

/// literal (possibly negated / parenthesised / combined) without any type suffix
pub fn is_untyped(e: &Expr) -> bool {
    match e {
        Expr::Lit(l) => match &l.lit { Lit::Int(i) => i.suffix().is_empty(), _ => false },
        Expr::Paren(p) => is_untyped(&p.expr),
        Expr::Group(p) => is_untyped(&p.expr),
        Expr::Unary(u) => matches!(u.op, UnOp::Neg(_)) && is_untyped(&u.expr),
        Expr::Binary(b) => is_untyped(&b.left) && is_untyped(&b.right),
        _ => false,
    }
}

pub fn strip(e: &Expr) -> &Expr {
    match e {
        Expr::Paren(p) => strip(&p.expr),
        Expr::Group(p) => strip(&p.expr),
        Expr::Reference(r) => strip(&r.expr),
        Expr::Unary(u) if matches!(u.op, UnOp::Deref(_)) => strip(&u.expr),
        _ => e,
    }
}

pub fn path_ident(e: &Expr) -> Option<String> {
    if let Expr::Path(p) = strip(e) {
        if p.qself.is_none() && p.path.segments.len() == 1 && p.path.segments[0].arguments.is_none() {
            return Some(p.path.segments[0].ident.to_string());
        }
    }
    None
}

impl<'w> FnTr<'w> {
    pub fn tr_expr(&mut self, e: &Expr, exp: Option<&RTy>) -> Res<Ex> {
        match e {
            Expr::Paren(p) => self.tr_expr(&p.expr, exp),
            Expr::Group(p) => self.tr_expr(&p.expr, exp),
            Expr::Reference(r) => self.tr_expr(&r.expr, exp),
            Expr::Lit(l) => self.tr_lit(e, &l.lit, exp, false),
            Expr::Unary(u) => match u.op {
                UnOp::Deref(_) => self.tr_expr(&u.expr, exp),
                UnOp::Not(_) => {
                    let x = self.tr_expr(&u.expr, match exp { Some(RTy::U64) => Some(&RTy::U64), _ => Some(&RTy::Bool) });
                    // `!0` with an untyped literal where a bool was guessed
                    let x = match x { Ok(x) => x, Err(m) => if exp.is_none() && self.bits { self.tr_expr(&u.expr, Some(&RTy::U64)).map_err(|_| m)? } else { return Err(m) } };
                    if x.ty == RTy::U64 {
                        let mut r = Ex::pure(format!("~~~{}", x.a()), RTy::U64);
                        r.pure = x.pure;
                        return Ok(r);
                    }
                    if x.ty != RTy::Bool { return Err(self.err(e, "`!` is only supported on bool (and on u64 in bit-manipulating functions)")); }
                    let mut r = Ex::pure(format!("!{}", x.a()), RTy::Bool);
                    r.pure = x.pure;
                    if let Some(p) = &x.prop { r.prop = Some(format!("¬ ({})", p)); }
                    Ok(r)
                }
                UnOp::Neg(_) => {
                    if let Expr::Lit(l) = strip(&u.expr) {
                        if let Lit::Int(_) = &l.lit { return self.tr_lit(e, &l.lit, exp, true); }
                    }
                    let x = self.tr_expr(&u.expr, exp)?;
                    let t = self.int_of(e, &x.ty)?;
                    if !t.signed() { return Err(self.err(e, "negation of an unsigned value")); }
                    Ok(Ex::monadic(format!("chk {} (-{})", t.lean(), x.a()), x.ty))
                }
                _ => Err(self.err(e, "unsupported unary operator")),
            },
            Expr::Path(p) => self.tr_path(e, p, exp),
            Expr::Field(f) => self.tr_field(e, f),
            Expr::Index(ix) if matches!(strip(&ix.index), Expr::Range(_)) => {
                // `&s[a..b]` of a string: BYTE offsets (`strSlice`; `none` = out of range / not on a char boundary: a panic)
                let base = self.tr_expr(&ix.expr, None)?;
                if base.ty != RTy::Str { return Err(self.err(e, "range indexing is only supported on strings")); }
                let r = match strip(&ix.index) { Expr::Range(r) if matches!(r.limits, syn::RangeLimits::HalfOpen(_)) => r, _ => return Err(self.err(e, "only `a..b` ranges are supported")) };
                let (a, b) = match (&r.start, &r.end) { (Some(a), Some(b)) => (&**a, &**b), _ => return Err(self.err(e, "range without both bounds")) };
                let us = RTy::Int(IntTy::Usize);
                let ax = self.tr_expr(a, Some(&us))?;
                let bx = self.tr_expr(b, Some(&us))?;
                if ax.ty != us || bx.ty != us { return Err(self.err(e, "range bounds must be usize")); }
                Ok(Ex::monadic(format!("strSlice {} {} {}", base.a(), ax.a(), bx.a()), RTy::Str))
            }
            Expr::Index(ix) => {
                let base = self.tr_expr(&ix.expr, None)?;
                let idx = self.tr_expr(&ix.index, Some(&RTy::Int(IntTy::Usize)))?;
                if idx.ty != RTy::Int(IntTy::Usize) { return Err(self.err(e, "index must be usize")); }
                match &base.ty {
                    RTy::VecFn(el) => {
                        let mut r = Ex::pure(format!("{} {}.toNat", base.a(), idx.a()), (**el).clone());
                        r.pure = base.pure && idx.pure;
                        Ok(r)
                    }
                    RTy::VecList(el) => Ok(Ex::monadic(format!("vecIdx {} {}", base.a(), idx.a()), (**el).clone())),
                    _ => Err(self.err(e, "indexing is only supported on Vec fields")),
                }
            }
            Expr::Cast(c) => {
                let target = self.resolve_type(&c.ty)?;
                if target == RTy::U64 {
                    let x = self.tr_expr(&c.expr, if is_untyped(&c.expr) { Some(&target) } else { None })?;
                    let mut r = match &x.ty {
                        RTy::U64 => x.clone(),
                        RTy::Int(_) => Ex::pure(format!("u64OfInt {}", x.a()), RTy::U64),
                        RTy::Bool => Ex::pure(format!("u64OfBool {}", x.a()), RTy::U64),
                        _ => return Err(self.err(e, "unsupported cast source type")),
                    };
                    r.pure = x.pure;
                    return Ok(r);
                }
                let tt = self.int_of(e, &target)?;
                let x = self.tr_expr(&c.expr, if is_untyped(&c.expr) { Some(&target) } else { None })?;
                let mut r = match &x.ty {
                    RTy::U64 => Ex::pure(format!("cast {} (u64ToInt {})", tt.lean(), x.a()), target.clone()),
                    RTy::Int(_) => Ex::pure(format!("cast {} {}", tt.lean(), x.a()), target.clone()),
                    RTy::Bool => Ex::pure(format!("ofBool {}", x.a()), target.clone()),
                    RTy::Char => Ex::pure(format!("cast {} (ofChar {})", tt.lean(), x.a()), target.clone()),
                    _ => return Err(self.err(e, "unsupported cast source type")),
                };
                r.pure = x.pure;
                Ok(r)
            }
            Expr::Binary(b) => self.tr_binary(e, b, exp),
            Expr::Call(c) => self.tr_call(e, c, exp),
            Expr::MethodCall(mc) => self.tr_method(e, mc, exp),
            Expr::Struct(s) => self.tr_struct_lit(e, s),
            Expr::If(_) | Expr::Match(_) | Expr::Block(_) => {
                let (lines, ty) = self.tr_ctl_value(e, exp)?;
                match compress(&lines) {
                    Some(t) => Ok(Ex::pure(t, ty)),
                    None => Err(self.err(e, "control-flow expression with statements / panicking operations nested inside another expression is unsupported (bind it with `let` first)")),
                }
            }
            // `[a, b, ..]` (array constant): a list
            Expr::Array(a) => {
                let el = match exp {
                    Some(RTy::VecList(el)) | Some(RTy::VecFn(el)) => (**el).clone(),
                    // no expected type: the type of the first element (`[('K', flag), ..]`)
                    _ => match a.elems.first() { Some(x0) => self.tr_expr(x0, None).map_err(|_| self.err(e, "array literal where no array type is expected"))?.ty, None => return Err(self.err(e, "empty array literal where no array type is expected")) },
                };
                let mut xs = vec![];
                for x in &a.elems {
                    let v = self.tr_expr(x, Some(&el))?;
                    if v.ty != el || !v.pure { return Err(self.err(e, "array element of the wrong type / that can panic")); }
                    xs.push(v.text);
                }
                Ok(Ex::atom(format!("[{}]", xs.join(", ")), RTy::VecList(Box::new(el))))
            }
            Expr::Tuple(t) if t.elems.is_empty() => Ok(Ex::atom("()", RTy::Unit)),
            Expr::Tuple(t) => {
                let exps: Vec<Option<RTy>> = match exp { Some(RTy::Tuple(ts)) if ts.len() == t.elems.len() => ts.iter().map(|x| Some(x.clone())).collect(), _ => t.elems.iter().map(|_| None).collect() };
                let mut xs = vec![];
                for (el, ex) in t.elems.iter().zip(exps.iter()) { xs.push(self.tr_expr(el, ex.as_ref())?); }
                // nested actions are evaluated left to right, like the Rust
                let mut r = Ex::atom(format!("({})", xs.iter().map(|x| x.text.clone()).collect::<Vec<_>>().join(", ")), RTy::Tuple(xs.iter().map(|x| x.ty.clone()).collect()));
                r.pure = xs.iter().all(|x| x.pure);
                Ok(r)
            }
            // `unsafe { e }`: every operation inside must still be in the mapping table (unchecked accesses are translated
            // as checked ones)
            Expr::Unsafe(_) => {
                let (lines, ty) = self.tr_ctl_value(e, exp)?;
                match compress(&lines) {
                    Some(t) => Ok(Ex::pure(t, ty)),
                    None => match lines.as_slice() {
                        [l] if !l.starts_with("pure ") && !l.starts_with("let ") => Ok(Ex::monadic(l.clone(), ty)),
                        _ => Err(self.err(e, "`unsafe` block with statements inside another expression is unsupported (bind it with `let` first)")),
                    },
                }
            }
            Expr::Try(_) => Err(self.err(e, "`?` is only supported as the outermost operator of a `let` initialiser")),
            Expr::Closure(_) => Err(self.err(e, "closure outside a supported combinator")),
            // `format!("{}{}..", a, b, ..)`: only `{}` placeholders and literal text, string arguments: concatenation
            Expr::Macro(m) if m.mac.path.is_ident("format") => {
                use syn::punctuated::Punctuated;
                let args = m.mac.parse_body_with(Punctuated::<Expr, syn::Token![,]>::parse_terminated).map_err(|_| self.err(e, "cannot parse the arguments of `format!`"))?;
                let args: Vec<&Expr> = args.iter().collect();
                let tpl = match args.first().map(|a| strip(a)) { Some(Expr::Lit(syn::ExprLit { lit: Lit::Str(s), .. })) => s.value(), _ => return Err(self.err(e, "`format!` without a literal template")) };
                let mut parts: Vec<Ex> = vec![];
                let mut lit = String::new();
                let mut k = 1;
                let cs: Vec<char> = tpl.chars().collect();
                let mut i = 0;
                let flush = |lit: &mut String, parts: &mut Vec<Ex>| { if !lit.is_empty() { let t: Vec<String> = lit.chars().map(|c| format!("(Char.ofNat {})", c as u32)).collect(); parts.push(Ex::atom(format!("[{}]", t.join(", ")), RTy::Str)); lit.clear(); } };
                while i < cs.len() {
                    if cs[i] == '{' && i + 1 < cs.len() && cs[i + 1] == '}' {
                        flush(&mut lit, &mut parts);
                        if k >= args.len() { return Err(self.err(e, "`format!`: more placeholders than arguments")); }
                        let x = self.tr_expr(args[k], Some(&RTy::Str))?;
                        if x.ty != RTy::Str { return Err(self.err(e, "`format!` is only in the mapping table for string arguments")); }
                        parts.push(x);
                        k += 1; i += 2;
                    } else if cs[i] == '{' || cs[i] == '}' {
                        return Err(self.err(e, "`format!`: only plain `{}` placeholders are in the mapping table"));
                    } else { lit.push(cs[i]); i += 1; }
                }
                flush(&mut lit, &mut parts);
                if k != args.len() { return Err(self.err(e, "`format!`: more arguments than placeholders")); }
                if parts.is_empty() { return Ok(Ex::atom("([] : List Char)", RTy::Str)); }
                let mut r = Ex::pure(parts.iter().map(|x| x.a()).collect::<Vec<_>>().join(" ++ "), RTy::Str);
                r.pure = parts.iter().all(|x| x.pure);
                Ok(r)
            }
            Expr::Macro(_) => Err(self.err(e, "macro invocation")),
            _ => Err(self.err(e, "unsupported expression")),
        }
    }

    fn tr_lit<T: syn::spanned::Spanned + quote::ToTokens>(&mut self, node: &T, lit: &Lit, exp: Option<&RTy>, neg: bool) -> Res<Ex> {
        match lit {
            Lit::Int(i) => {
                if (i.suffix().is_empty() && exp == Some(&RTy::U64)) || (i.suffix() == "u64" && self.bits) {
                    let v: u128 = i.base10_parse().map_err(|_| self.err(node, "integer literal too large"))?;
                    if neg && v != 0 || !IntTy::U64.fits_nonneg(v) { return Err(self.err(node, "literal out of range for u64")); }
                    return Ok(Ex::atom(format!("({} : UInt64)", v), RTy::U64));
                }
                let ty = if i.suffix().is_empty() {
                    match exp {
                        Some(RTy::Int(t)) => *t,
                        Some(t) => return Err(self.err(node, &format!("integer literal where {} is expected", t.rust()))),
                        None => return Err(self.err(node, "cannot determine the type of this integer literal (add a suffix or annotation)")),
                    }
                } else {
                    IntTy::from_name(i.suffix()).ok_or_else(|| self.err(node, "unsupported literal suffix"))?
                };
                let v: u128 = i.base10_parse().map_err(|_| self.err(node, "integer literal too large"))?;
                let fits = if neg { ty.fits_neg(v) } else { ty.fits_nonneg(v) };
                if !fits { return Err(self.err(node, &format!("literal out of range for {}", ty.name()))); }
                Ok(if neg && v != 0 { Ex::atom(format!("(-{})", v), RTy::Int(ty)) } else { Ex::atom(format!("{}", v), RTy::Int(ty)) })
            }
            Lit::Float(f) if !neg && (f.suffix().is_empty() || f.suffix() == "f64") => {
                // only dyadic rationals (exactly representable, exact products with small integers): k / 2^n
                let txt = f.base10_digits().to_string();
                let (ip, fp) = match txt.split_once('.') { Some((a, b)) => (a.to_string(), b.to_string()), None => (txt.clone(), String::new()) };
                if txt.contains('e') || txt.contains('E') || fp.len() > 10 { return Err(self.err(node, "unsupported float literal")); }
                let num: u128 = format!("{}{}", ip, fp).parse().map_err(|_| self.err(node, "unsupported float literal"))?;
                let den: u128 = 10u128.pow(fp.len() as u32);
                fn gcd(a: u128, b: u128) -> u128 { if b == 0 { a } else { gcd(b, a % b) } }
                let g = gcd(num, den).max(1);
                let (n, d) = (num / g, den / g);
                if !d.is_power_of_two() || d > (1 << 20) || n > (1 << 20) { return Err(self.err(node, "float literal that is not a small dyadic rational (k / 2^n)")); }
                Ok(Ex::atom(format!("({}, {})", n, d), RTy::F64Lit))
            }
            Lit::Bool(b) if !neg => Ok(Ex::atom(if b.value { "true" } else { "false" }, RTy::Bool)),
            // a string literal: the list of its chars, written out
            Lit::Str(st) if !neg => {
                let v = st.value();
                if v.chars().count() > 80 { return Err(self.err(node, "string literal longer than 80 chars")); }
                let cs: Vec<String> = v.chars().map(|ch| if ch.is_ascii_graphic() && ch != '\'' && ch != '\\' { format!("'{}'", ch) } else { format!("Char.ofNat {}", ch as u32) }).collect();
                Ok(Ex::atom(if cs.is_empty() { "([] : List Char)".to_string() } else { format!("[{}]", cs.join(", ")) }, RTy::Str))
            }
            // a byte literal `b'a'`
            Lit::Byte(b) if !neg => Ok(Ex::atom(format!("{}", b.value()), RTy::Int(IntTy::U8))),
            Lit::Char(c) if !neg => {
                let ch = c.value();
                let text = if ch.is_ascii_graphic() && ch != '\'' && ch != '\\' { format!("'{}'", ch) } else { format!("(Char.ofNat {})", ch as u32) };
                Ok(Ex::atom(text, RTy::Char))
            }
            _ => Err(self.err(node, "unsupported literal")),
        }
    }

    fn tr_path(&mut self, e: &Expr, p: &syn::ExprPath, exp: Option<&RTy>) -> Res<Ex> {
        if p.qself.is_some() { return Err(self.err(e, "qualified path")); }
        let segs: Vec<String> = p.path.segments.iter().map(|s| s.ident.to_string()).collect();
        if p.path.segments.iter().any(|s| !s.arguments.is_none()) { return Err(self.err(e, "path with generic arguments")); }
        if segs.len() == 1 {
            let name = &segs[0];
            if let Some(v) = self.lookup(name).cloned() {
                if let RTy::Flat(s) = &v.ty {
                    // a flattened struct LOCAL where a packed value is expected (`result.push(mv)`): the tuple of its field variables
                    if let (None, Some(RTy::Packed(ps, _))) = (v.param, exp) {
                        if ps == s { if let Some(x) = self.pack_flat_local(name, s) { return Ok(x); } }
                    }
                    return Err(self.err(e, &format!("value of struct type `{}` used as a whole (only field reads / listed opaque methods are supported)", s)));
                }
                self.note_use(&v.lean);
                return Ok(Ex::atom(v.lean, v.ty));
            }
            if let Some((_, why)) = self.poisoned.iter().find(|(n, _)| n == name) {
                return Err(self.err(e, &format!("use of a parameter of an unsupported type ({})", why)));
            }
            if name == "None" {
                return match exp {
                    Some(t @ RTy::Opt(_)) => Ok(Ex::atom("none", t.clone())),
                    _ => Err(self.err(e, "cannot determine the type of `None`")),
                };
            }
            if name == "self" { return Err(self.err(e, "`self` used as a whole")); }
            if let Some(c) = self.world.consts.get(&(None, name.clone())).cloned() {
                if !(self.use_leafs.contains(name) || self.use_glob || c.module == self.target.module || c.file == self.target.file) {
                    return Err(self.err(e, "constant is registered but not imported by a `use` in this file"));
                }
                return Ok(self.const_ref(&c));
            }
            // a global TABLE used as a value (`&ROOK_MAGICS` as an argument): its lookup function, an OPAQUE parameter
            if let (What::Fn { opaque, .. }, Some((_, tn))) = (&self.target.what, crate::targets::TABLE_GLOBALS.iter().find(|(g, _)| g == name)) {
                let tt = crate::targets::TABLE_TYPES.iter().find(|t| t.0 == *tn).ok_or_else(|| self.err(e, "bad table type in the table"))?;
                if self.bits && opaque.iter().any(|o| o.recv == name && o.method == tt.1) {
                    if !(self.use_leafs.contains(name) || self.use_glob) { return Err(self.err(e, "opaque global is not imported by a `use` in this file")); }
                    let ty = RTy::Table(tn.to_string());
                    let pname = format!("{}_{}", name, tt.1);
                    let n = self.lparam(&pname, RTy::Opaque(ty.lean()), Origin::ParamMethod(usize::MAX, pname.clone()), (usize::MAX - 1, 1, self.lparams.len()))?;
                    return Ok(Ex::atom(n, ty));
                }
            }
            // an OPAQUE global VALUE (`WHITE_TABLES`; table entry with an empty method name): a parameter of its type (arrays = lists)
            if let What::Fn { opaque, .. } = &self.target.what {
                if let Some(o) = opaque.iter().find(|o| o.recv == name && o.method.is_empty()) {
                    fn listify(t: RTy) -> RTy { match t { RTy::VecFn(el) | RTy::VecList(el) => RTy::VecList(Box::new(listify(*el))), t => t } }
                    let ty: syn::Type = syn::parse_str(o.ret).map_err(|_| self.err(e, "bad opaque type in the table"))?;
                    let ty = listify(self.resolve_type(&ty)?);
                    let n = self.lparam(name, ty.clone(), Origin::ParamMethod(usize::MAX, name.clone()), (usize::MAX - 1, 1, self.lparams.len()))?;
                    return Ok(Ex::atom(n, ty));
                }
            }
            if let Some(r) = self.enum_variant(e, None, name)? { return Ok(r); }
            return Err(self.err(e, "unknown identifier (not a local, parameter or registered constant)"));
        }
        if segs.len() == 2 {
            if segs[0] == "Self" {
                let ns = self.target.container.ns().map(|s| s.to_string());
                if let Some(c) = self.world.consts.get(&(ns, segs[1].clone())).cloned() { return Ok(self.const_ref(&c)); }
                return Err(self.err(e, "unknown associated constant (not registered for translation)"));
            }
            if let Some(c) = self.world.consts.get(&(Some(segs[0].clone()), segs[1].clone())).cloned() { return Ok(self.const_ref(&c)); }
            // opaque associated constant of another type (`Zobrist::BLACK_TO_MOVE_HASH`): a parameter
            if let What::Fn { opaque, .. } = &self.target.what {
                if let Some(o) = opaque.iter().find(|o| o.recv == segs[0] && o.method == segs[1]) {
                    if !(self.use_leafs.contains(&segs[0]) || self.use_glob) { return Err(self.err(e, "the type of this opaque associated constant is not imported by a `use` in this file")); }
                    let ty: syn::Type = syn::parse_str(o.ret).map_err(|_| self.err(e, "bad opaque type in the table"))?;
                    let ty = self.resolve_type(&ty)?;
                    let name = format!("{}_{}", segs[0], segs[1]);
                    let n = self.lparam(&name, ty.clone(), Origin::ParamMethod(usize::MAX, name.clone()), (usize::MAX - 1, 1, self.lparams.len()))?;
                    return Ok(Ex::atom(n, ty));
                }
            }
            if let Some(r) = self.enum_variant(e, Some(&segs[0]), &segs[1])? { return Ok(r); }
        }
        Err(self.err(e, "unsupported path"))
    }

    fn const_ref(&mut self, c: &ConstInfo) -> Ex {
        self.deps.insert(c.module.clone());
        if c.pure { Ex::atom(c.lean.clone(), c.ty.clone()) } else { Ex::monadic(c.lean.clone(), c.ty.clone()) }
    }

    /// unit variant of a registered enum
    fn enum_variant(&mut self, e: &Expr, en: Option<&str>, variant: &str) -> Res<Option<Ex>> {
        let found = self.find_variant(e, en, variant)?;
        match found {
            Some((en, fields)) => {
                if !fields.is_empty() { return Err(self.err(e, "enum variant with fields used without fields")); }
                let ty = RTy::Enum(en.clone());
                self.note_ty_dep(&ty);
                Ok(Some(Ex::atom(format!("{}.{}", en, variant), ty)))
            }
            None => Ok(None),
        }
    }

    pub fn find_variant<T: syn::spanned::Spanned + quote::ToTokens>(&self, node: &T, en: Option<&str>, variant: &str) -> Res<Option<(String, Vec<(String, RTy)>)>> {
        let mut hits = vec![];
        for (name, info) in self.world.enums.iter() {
            if let Some(en) = en { if en != name { continue; } }
            for (v, fields) in &info.variants {
                if v == variant { hits.push((name.clone(), fields.clone())); }
            }
        }
        if hits.len() > 1 { return Err(self.err(node, "ambiguous enum variant")); }
        if let Some(h) = hits.pop() {
            if en.is_none() && !(self.use_leafs.contains(variant) || self.use_glob) {
                return Err(self.err(node, "enum variant is registered but not imported by a `use` in this file"));
            }
            return Ok(Some(h));
        }
        Ok(None)
    }

    /// the Rust parameter index and struct name if `e` is (a reference to) a flattened struct parameter
    pub fn flat_var(&self, e: &Expr) -> Option<(String, usize, String)> {
        let name = path_ident(e)?;
        let v = self.lookup(&name)?;
        match (&v.ty, v.param) {
            (RTy::Flat(s), Some(i)) => Some((name, i, s.clone())),
            _ => None,
        }
    }

    /// `field` may be a dotted path through nested flattened structs (`state.bitboard.turn`)
    pub fn flat_field<T: syn::spanned::Spanned + quote::ToTokens>(&mut self, node: &T, var: &str, idx: usize, sname: &str, field: &str) -> Res<Ex> {
        let mut cur = sname.to_string();
        let mut key = 0usize;
        let segs: Vec<&str> = field.split('.').collect();
        let mut ty = RTy::Unit;
        for (k, seg) in segs.iter().enumerate() {
            let info = self.world.structs.get(&cur).ok_or_else(|| self.err(node, &format!("struct `{}` is not registered", cur)))?;
            let (fi, fty) = info.fields.iter().enumerate().find(|(_, (n, _))| n == seg).map(|(i, (_, t))| (i, t.clone()))
                .ok_or_else(|| self.err(node, &format!("struct `{}` has no field `{}`", cur, seg)))?;
            key = key * 100 + fi + 1;
            ty = self.resolve_field_type(&fty, &cur).map_err(|m| self.err(node, &format!("field `{}.{}`: {}", cur, seg, m)))?;
            if k + 1 < segs.len() {
                match &ty { RTy::Flat(n) => cur = n.clone(), _ => return Err(self.err(node, &format!("field `{}.{}` is not a registered struct", cur, seg))) }
            }
        }
        for _ in segs.len()..4 { key *= 100; }
        if let (RTy::VecFn(el), What::Fn { vec_list: true, .. }) = (&ty, &self.target.what) { ty = RTy::VecList(el.clone()); }
        if let RTy::Flat(n) = ty { return Err(self.err(node, &format!("value of struct type `{}` used as a whole", n))); }
        // a field that is mutably borrowed into a local must not be accessed directly (its value lives in the local)
        if var == "self" {
            let top = lean_ident(segs[0]);
            if self.writebacks.iter().any(|(_, _, tf, _)| tf.contains(&top)) { return Err(self.err(node, &format!("`self.{}` is accessed while it is mutably borrowed into a local", segs[0]))); }
        }
        let flat_name = field.replace('.', "_");
        let pname = if var == "self" { flat_name } else { format!("{}_{}", var, flat_name) };
        let n = self.lparam(&pname, ty.clone(), Origin::ParamField(idx, field.to_string()), (idx, 0, key))?;
        Ok(Ex::atom(n, ty))
    }

    /// `root.f1.f2..` with `root` a flattened struct parameter: (root variable, parameter index, struct, dotted path)
    pub fn flat_chain(&self, e: &Expr) -> Option<(String, usize, String, String)> {
        let mut fields: Vec<String> = vec![];
        let mut cur = strip(e);
        loop {
            match cur {
                Expr::Field(f) => {
                    match &f.member { syn::Member::Named(i) => fields.push(i.to_string()), _ => return None }
                    cur = strip(&f.base);
                }
                _ => break,
            }
        }
        if fields.is_empty() { return None; }
        let (var, idx, sname) = self.flat_var(cur)?;
        fields.reverse();
        Some((var, idx, sname, fields.join(".")))
    }

    /// do all fields of the dotted `path` but the last belong to FLATTENED structs (starting at `sname`)?
    fn chain_stays_flat(&self, sname: &str, path: &str) -> bool {
        let segs: Vec<&str> = path.split('.').collect();
        let mut cur = sname.to_string();
        for seg in &segs[..segs.len() - 1] {
            let info = match self.world.structs.get(&cur) { Some(i) => i, None => return true };
            let fty = match info.fields.iter().find(|(n, _)| n == seg) { Some((_, t)) => t.clone(), None => return true };
            match self.resolve_field_type(&fty, &cur) { Ok(RTy::Flat(n)) => cur = n, Ok(RTy::Struct(_)) => return false, _ => return true }
        }
        true
    }

    /// type of a field of a VALUE of the regenerated struct `sname` (as declared in the Lean structure)
    pub fn struct_field_type(&self, fty: &syn::Type, sname: &str) -> Result<RTy, String> {
        let bits = self.world.structs.get(sname).map(|s| s.bits).unwrap_or(false);
        let t = resolve_type_s(self.world, fty, Some(sname), &std::collections::HashMap::new(), bits)?;
        Ok(match t { RTy::VecFn(el) => RTy::VecList(el), t => t })
    }

    fn tr_field(&mut self, e: &Expr, f: &syn::ExprField) -> Res<Ex> {
        if let syn::Member::Unnamed(ix) = &f.member {
            let base = self.tr_expr(&f.base, None)?;
            if let RTy::Tuple(ts) = &base.ty {
                let k = ix.index as usize;
                if k >= ts.len() { return Err(self.err(e, "tuple index out of range")); }
                // Lean tuples are right-nested pairs
                let mut t = base.a();
                for _ in 0..k { t = format!("{}.2", t); }
                if k + 1 < ts.len() { t = format!("{}.1", t); }
                let mut r = Ex::atom(t, ts[k].clone());
                r.pure = base.pure;
                return Ok(r);
            }
            return Err(self.err(e, "tuple field of a value that is not a tuple"));
        }
        let field = match &f.member { syn::Member::Named(i) => i.to_string(), _ => return Err(self.err(e, "tuple field")) };
        // `r.start` / `r.end` of a `Range` (a variable or a field path: translating it speculatively has no side effect)
        if field == "start" || field == "end" {
            fn simple(e: &Expr) -> bool { match strip(e) { Expr::Path(_) => true, Expr::Field(f) => simple(&f.base), _ => false } }
            if simple(&f.base) {
                let saved = self.lparams.len();
                match self.tr_expr(&f.base, None) {
                    Ok(base) if matches!(base.ty, RTy::Range(_)) => {
                        let el = match &base.ty { RTy::Range(t) => (**t).clone(), _ => unreachable!() };
                        let mut r = Ex::atom(format!("{}.{}", base.a(), if field == "start" { 1 } else { 2 }), el);
                        r.pure = base.pure;
                        return Ok(r);
                    }
                    _ => { self.lparams.truncate(saved); }
                }
            }
        }
        // an OPAQUE field of a value of an opaque type (`square.mask`): the opaque FUNCTION parameter `Type_field` applied to it
        if let Some(xn) = path_ident(&f.base) {
            if let (Some(RTy::Opaque(tn)), What::Fn { opaque, .. }) = (self.lookup(&xn).map(|v| v.ty.clone()), &self.target.what) {
                if let Some(base) = tn.strip_suffix('T') {
                    if let Some(o) = opaque.iter().find(|o| o.recv == base && o.method == field) {
                        let ty: syn::Type = syn::parse_str(o.ret).map_err(|_| self.err(e, "bad opaque type in the table"))?;
                        let ret = self.resolve_type(&ty)?;
                        let v = self.lookup(&xn).cloned().unwrap();
                        self.note_use(&v.lean);
                        let name = format!("{}_{}", base, field);
                        let fty = RTy::Opaque(format!("{} → {}", tn, ret.lean()));
                        let n = self.lparam(&name, fty, Origin::ParamMethod(usize::MAX, name.clone()), (usize::MAX - 1, 1, self.lparams.len()))?;
                        return Ok(Ex::pure(format!("{} {}", n, v.lean), ret));
                    }
                    return Err(self.err(e, &format!("field `{}` of the opaque type `{}` is not listed as opaque for this function", field, base)));
                }
            }
        }
        // field of a flattened struct LOCAL: a variable of its own
        if let Some(xn) = path_ident(&f.base) {
            if let Some(xv) = self.lookup(&xn).cloned() {
                if let (RTy::Flat(_), None) = (&xv.ty, xv.param) {
                    let v = self.lookup(&format!("{}.{}", xn, field)).cloned().ok_or_else(|| self.err(e, "unknown field of a flattened struct local"))?;
                    self.note_use(&v.lean);
                    return Ok(Ex::atom(v.lean, v.ty));
                }
            }
        }
        if let Some((var, idx, sname, path)) = self.flat_chain(e) {
            // `self.white.queen_side_castle`: the chain leaves the flattened structs at a regenerated struct VALUE (`self.white`);
            // the rest is a projection
            if !self.chain_stays_flat(&sname, &path) {
                let base = self.tr_expr(&f.base, None)?;
                if let RTy::Struct(s) = &base.ty {
                    let info = self.world.structs.get(s).unwrap();
                    let fty = info.fields.iter().find(|(n, _)| *n == field).map(|(_, t)| t.clone())
                        .ok_or_else(|| self.err(e, &format!("struct `{}` has no field `{}`", s, field)))?;
                    let ty = self.struct_field_type(&fty, s).map_err(|m| self.err(e, &m))?;
                    let mut r = Ex::atom(format!("{}.{}", base.a(), lean_ident(&field)), ty);
                    r.pure = base.pure;
                    return Ok(r);
                }
                return Err(self.err(e, "field access on an unsupported value"));
            }
            return self.flat_field(e, &var, idx, &sname, &path);
        }
        let base = self.tr_expr(&f.base, None)?;
        if let RTy::Struct(s) = &base.ty {
            let info = self.world.structs.get(s).unwrap();
            let fty = info.fields.iter().find(|(n, _)| *n == field).map(|(_, t)| t.clone())
                .ok_or_else(|| self.err(e, &format!("struct `{}` has no field `{}`", s, field)))?;
            let ty = self.struct_field_type(&fty, s).map_err(|m| self.err(e, &m))?;
            let mut r = Ex::atom(format!("{}.{}", base.a(), lean_ident(&field)), ty);
            r.pure = base.pure;
            return Ok(r);
        }
        Err(self.err(e, "field access on an unsupported value"))
    }

    fn tr_binary(&mut self, e: &Expr, b: &syn::ExprBinary, exp: Option<&RTy>) -> Res<Ex> {
        #[derive(PartialEq)]
        enum K { Arith(&'static str), DivRem(&'static str), Shift(&'static str), Cmp(&'static str), EqNe(bool), And, Or, Bit(&'static str) }
        let k = match b.op {
            BinOp::BitAnd(_) => K::Bit("&&&"), BinOp::BitOr(_) => K::Bit("|||"), BinOp::BitXor(_) => K::Bit("^^^"),
            BinOp::Add(_) => K::Arith("+"), BinOp::Sub(_) => K::Arith("-"), BinOp::Mul(_) => K::Arith("*"),
            BinOp::Div(_) => K::DivRem("div"), BinOp::Rem(_) => K::DivRem("rem"),
            BinOp::Shl(_) => K::Shift("shl"), BinOp::Shr(_) => K::Shift("shr"),
            BinOp::Lt(_) => K::Cmp("<"), BinOp::Le(_) => K::Cmp("≤"), BinOp::Gt(_) => K::Cmp(">"), BinOp::Ge(_) => K::Cmp("≥"),
            BinOp::Eq(_) => K::EqNe(true), BinOp::Ne(_) => K::EqNe(false),
            BinOp::And(_) => K::And, BinOp::Or(_) => K::Or,
            _ => return Err(self.err(e, "unsupported binary operator")),
        };
        match k {
            K::Bit(op) => {
                // bit operators: only on `u64` = `UInt64` (bit-manipulating functions)
                let want = RTy::U64;
                let (l, r) = self.operands(&b.left, &b.right, Some(&want))?;
                if l.ty != RTy::U64 || r.ty != RTy::U64 { return Err(self.err(e, &format!("bit operator on {} and {} (only u64 in a function marked `bits` is supported)", l.ty.rust(), r.ty.rust()))); }
                let mut x = Ex::pure(format!("{} {} {}", l.a(), op, r.a()), RTy::U64);
                x.pure = l.pure && r.pure;
                Ok(x)
            }
            K::And | K::Or => {
                let l = self.tr_expr(&b.left, Some(&RTy::Bool))?;
                // the right operand is translated in its own frame: if it can panic it must only run when needed
                let r = self.tr_expr(&b.right, Some(&RTy::Bool))?;
                if l.ty != RTy::Bool || r.ty != RTy::Bool { return Err(self.err(e, "`&&`/`||` on non-bool")); }
                let is_and = k == K::And;
                if r.pure {
                    let mut x = Ex::pure(format!("{} {} {}", l.a(), if is_and { "&&" } else { "||" }, r.a()), RTy::Bool);
                    x.pure = l.pure;
                    if let (Some(pl), Some(pr)) = (&l.prop, &r.prop) {
                        x.prop = Some(format!("({}) {} ({})", pl, if is_and { "∧" } else { "∨" }, pr));
                    }
                    Ok(x)
                } else {
                    let rt = r.as_option_term();
                    Ok(Ex::monadic(
                        // (parenthesised: a TERM-level `if`, not a `do`-`if` whose continuation Lean would duplicate into both branches)
                        if is_and { format!("(if {} then {} else pure false)", l.cond(), rt) } else { format!("(if {} then pure true else {})", l.cond(), rt) },
                        RTy::Bool))
                }
            }
            K::Cmp(_) | K::EqNe(_) => {
                let (l, r) = self.operands(&b.left, &b.right, None)?;
                if l.ty != r.ty { return Err(self.err(e, &format!("comparison of {} with {}", l.ty.rust(), r.ty.rust()))); }
                match (&k, &l.ty) {
                    (K::Cmp(_), RTy::Int(_)) | (K::Cmp(_), RTy::Char) | (K::Cmp(_), RTy::U64) => {}
                    (K::EqNe(_), RTy::U64) | (K::EqNe(_), RTy::Int(_)) | (K::EqNe(_), RTy::Char) | (K::EqNe(_), RTy::Bool) | (K::EqNe(_), RTy::Enum(_)) | (K::EqNe(_), RTy::Str) => {}
                    _ => return Err(self.err(e, &format!("comparison unsupported at type {}", l.ty.rust()))),
                }
                let op = match k { K::Cmp(o) => o, K::EqNe(true) => "=", _ => "≠" };
                let prop = format!("{} {} {}", l.a(), op, r.a());
                let mut x = Ex::pure(format!("decide ({})", prop), RTy::Bool);
                x.pure = l.pure && r.pure;
                x.prop = Some(prop);
                Ok(x)
            }
            K::Arith(op) => {
                let (l, r) = self.operands(&b.left, &b.right, exp)?;
                if l.ty != r.ty { return Err(self.err(e, &format!("arithmetic on {} and {}", l.ty.rust(), r.ty.rust()))); }
                if l.ty == RTy::U64 {
                    let f = match op { "+" => "u64Add", "-" => "u64Sub", _ => "u64Mul" };
                    return Ok(Ex::monadic(format!("{} {} {}", f, l.a(), r.a()), RTy::U64));
                }
                let t = self.int_of(e, &l.ty)?;
                Ok(Ex::monadic(format!("chk {} ({} {} {})", t.lean(), l.a(), op, r.a()), l.ty))
            }
            K::DivRem(f) => {
                let (l, r) = self.operands(&b.left, &b.right, exp)?;
                if l.ty != r.ty { return Err(self.err(e, &format!("arithmetic on {} and {}", l.ty.rust(), r.ty.rust()))); }
                let t = self.int_of(e, &l.ty)?;
                Ok(Ex::monadic(format!("{} {} {} {}", f, t.lean(), l.a(), r.a()), l.ty))
            }
            K::Shift(f) => {
                let l = self.tr_expr(&b.left, exp)?;
                let r = self.tr_expr(&b.right, if is_untyped(&b.right) { Some(&RTy::Int(IntTy::I32)) } else { None })?;
                if l.ty == RTy::U64 {
                    // the shift amount may have any integer type; `none` = amount not in 0..64 (panic)
                    let amount = match &r.ty { RTy::U64 => format!("(u64ToInt {})", r.a()), RTy::Int(_) => r.a(), _ => return Err(self.err(e, "shift amount is not an integer")) };
                    return Ok(Ex::monadic(format!("{} {} {}", if f == "shl" { "u64Shl" } else { "u64Shr" }, l.a(), amount), RTy::U64));
                }
                let t = self.int_of(e, &l.ty)?;
                self.int_of(e, &r.ty)?;
                Ok(Ex::monadic(format!("{} {} {} {}", f, t.lean(), l.a(), r.a()), l.ty))
            }
        }
    }

    /// translate two operands of the same type; an untyped literal takes its type from the other side
    pub fn operands(&mut self, l: &Expr, r: &Expr, exp: Option<&RTy>) -> Res<(Ex, Ex)> {
        if is_untyped(l) && !is_untyped(r) {
            let rx = self.tr_expr(r, exp)?;
            let lx = self.tr_expr(l, Some(&rx.ty))?;
            Ok((lx, rx))
        } else {
            let lx = self.tr_expr(l, exp)?;
            let rx = self.tr_expr(r, Some(&lx.ty))?;
            Ok((lx, rx))
        }
    }

    fn tr_struct_lit(&mut self, e: &Expr, s: &syn::ExprStruct) -> Res<Ex> {
        if s.rest.is_some() || s.qself.is_some() { return Err(self.err(e, "struct update syntax")); }
        let segs: Vec<String> = s.path.segments.iter().map(|x| x.ident.to_string()).collect();
        let (en, variant) = match segs.len() {
            1 => (None, segs[0].clone()),
            2 => (Some(segs[0].clone()), segs[1].clone()),
            _ => return Err(self.err(e, "unsupported struct literal path")),
        };
        // `Self { .. }` / `T { .. }` of the flattened self struct (constructor): the tuple of all fields in declaration order
        if let (None, Some(sn)) = (&en, self.self_struct.clone()) {
            if (variant == "Self" || variant == sn) && self.world.structs.get(&sn).map(|i| i.lean_module.is_none()).unwrap_or(false) {
                let decl = self.world.structs[&sn].fields.clone();
                let mut vals: Vec<(String, Ex)> = vec![];
                for fv in &s.fields {
                    let fname = match &fv.member { syn::Member::Named(i) => i.to_string(), _ => return Err(self.err(e, "tuple struct literal")) };
                    let fty = decl.iter().find(|(n, _)| *n == fname).map(|(_, t)| t.clone()).ok_or_else(|| self.err(e, "unknown field"))?;
                    let fty = self.resolve_field_type(&fty, &sn).map_err(|m| self.err(e, &m))?;
                    let x = self.tr_expr(&fv.expr, Some(&fty))?;
                    if !x.ty.compat(&fty) { return Err(self.err(e, &format!("field `{}`: expected {}, found {}", fname, fty.rust(), x.ty.rust()))); }
                    // a panicking initialiser is bound first, in SOURCE order (the tuple below is in declaration order); only where
                    // the caller emits the pending statements (the literal is the value the function returns)
                    let x = if x.pure { x } else {
                        if !self.struct_lit_pending_ok { return Err(self.err(e, "struct literal with a panicking field initialiser (bind it with `let` first)")); }
                        let t = self.fresh(&format!("field_{}", fname));
                        self.pending.push(crate::stmt::bind_line(&t, &x));
                        Ex::atom(t, x.ty.clone())
                    };
                    if vals.iter().any(|(n, _)| *n == fname) { return Err(self.err(e, "field given twice")); }
                    vals.push((fname, x));
                }
                if vals.len() != decl.len() { return Err(self.err(e, "wrong number of fields")); }
                let parts: Vec<String> = decl.iter().map(|(n, _)| vals.iter().find(|(m, _)| m == n).unwrap().1.text.clone()).collect();
                return Ok(Ex::atom(crate::stmt::tuple(&parts), RTy::Flat(sn)));
            }
        }
        // `Self { .. }` / `T { .. }` of a REGENERATED struct: a structure instance; the fields are written (and their nested actions run)
        // in SOURCE order, like the Rust evaluates them
        if en.is_none() {
            let sn = if variant == "Self" { self.target.container.ns().map(|s| s.to_string()) } else { Some(variant.clone()) };
            if let Some(sn) = sn {
                if let Some(si) = self.world.structs.get(&sn).cloned() {
                    if si.lean_module.is_some() && !(self.bits && !si.bits) {
                        let mut parts = vec![];
                        let mut pure = true;
                        for fv in &s.fields {
                            let fname = match &fv.member { syn::Member::Named(i) => i.to_string(), _ => return Err(self.err(e, "tuple struct literal")) };
                            let fty = si.fields.iter().find(|(n, _)| *n == fname).map(|(_, t)| t.clone()).ok_or_else(|| self.err(e, "unknown field"))?;
                            let fty = self.struct_field_type(&fty, &sn).map_err(|m| self.err(e, &m))?;
                            let x = self.tr_expr(&fv.expr, Some(&fty))?;
                            if !x.ty.compat(&fty) { return Err(self.err(e, &format!("field `{}`: expected {}, found {}", fname, fty.rust(), x.ty.rust()))); }
                            if parts.iter().any(|(n, _): &(String, String)| *n == fname) { return Err(self.err(e, "field given twice")); }
                            pure &= x.pure;
                            parts.push((fname, x.text));
                        }
                        if parts.len() != si.fields.len() { return Err(self.err(e, "wrong number of fields")); }
                        let ty = RTy::Struct(sn.clone());
                        self.note_ty_dep(&ty);
                        let mut r = Ex::atom(format!("({{ {} }} : {})", parts.iter().map(|(n, t)| format!("{} := {}", lean_ident(n), t)).collect::<Vec<_>>().join(", "), ty.lean()), ty);
                        r.pure = pure;
                        return Ok(r);
                    }
                }
            }
        }
        let (en, fields) = self.find_variant(e, en.as_deref(), &variant)?.ok_or_else(|| self.err(e, "struct literal of an unregistered type / variant"))?;
        if fields.len() != s.fields.len() { return Err(self.err(e, "wrong number of fields")); }
        let mut args = vec![];
        let mut pure = true;
        // Rust evaluates the field initialisers in source order; the constructor takes them in declaration order
        let mut vals: Vec<(String, Ex)> = vec![];
        for fv in &s.fields {
            let fname = match &fv.member { syn::Member::Named(i) => i.to_string(), _ => return Err(self.err(e, "tuple struct literal")) };
            let fty = fields.iter().find(|(n, _)| *n == fname).map(|(_, t)| t.clone()).ok_or_else(|| self.err(e, "unknown field"))?;
            let x = self.tr_expr(&fv.expr, Some(&fty))?;
            if x.ty != fty { return Err(self.err(e, &format!("field `{}`: expected {}, found {}", fname, fty.rust(), x.ty.rust()))); }
            pure &= x.pure;
            vals.push((fname, x));
        }
        if !pure && vals.len() > 1 { return Err(self.err(e, "struct literal with several panicking field initialisers (evaluation order) unsupported")); }
        for (n, _) in &fields {
            let x = &vals.iter().find(|(m, _)| m == n).ok_or_else(|| self.err(e, "missing field"))?.1;
            args.push(x.a());
        }
        let ty = RTy::Enum(en.clone());
        self.note_ty_dep(&ty);
        let mut r = Ex::pure(format!("{}.{} {}", en, variant, args.join(" ")), ty);
        r.pure = pure;
        Ok(r)
    }
}

/// single-line form of a value-producing `if` chain without statements: `if c then a else b`
pub fn compress(lines: &[String]) -> Option<String> {
    if lines.is_empty() { return None; }
    if lines.len() == 1 {
        let l = &lines[0];
        if let Some(rest) = l.strip_prefix("pure ") { if !rest.contains('←') { return Some(rest.to_string()); } }
        return None;
    }
    let first = &lines[0];
    if first.starts_with("if ") && first.ends_with(" then do") && !first.contains('←') {
        let cond = &first[3..first.len() - " then do".len()];
        let j = lines.iter().position(|l| l == "else do")?;
        let ded = |ls: &[String]| -> Option<Vec<String>> { ls.iter().map(|l| l.strip_prefix("  ").map(|s| s.to_string())).collect() };
        let a = compress(&ded(&lines[1..j])?)?;
        let b = compress(&ded(&lines[j + 1..])?)?;
        let b = if b.starts_with("if ") { b } else { b };
        return Some(format!("if {} then {} else {}", cond, a, b));
    }
    None
}
