//! Implementation side of the line protocol: every op calls the real inkayaku code in-process.
//! One request line in, one canonical answer line out.  Panics are caught by the caller (`run_line`).

use std::collections::BTreeMap;
use std::panic::{catch_unwind, AssertUnwindSafe};
use std::str::FromStr;

use inkayaku_board::constants::*;
use inkayaku_board::{Bitboard, Move, MoveFromUciError};
use inkayaku_core::constants::{Color, Square};
use inkayaku_core::fen::Fen;

pub mod engine_ops;

pub fn hex_encode(bytes: &[u8]) -> String {
    let mut s = String::with_capacity(bytes.len() * 2);
    for b in bytes {
        s.push_str(&format!("{:02x}", b));
    }
    s
}

pub fn hex_decode(s: &str) -> Option<Vec<u8>> {
    if s.len() % 2 != 0 {
        return None;
    }
    let b = s.as_bytes();
    let mut out = Vec::with_capacity(b.len() / 2);
    for i in (0..b.len()).step_by(2) {
        let h = (b[i] as char).to_digit(16)?;
        let l = (b[i + 1] as char).to_digit(16)?;
        out.push((h * 16 + l) as u8);
    }
    Some(out)
}

pub fn token_bytes(tok: &str) -> Option<Vec<u8>> {
    tok.strip_prefix("x:").and_then(hex_decode)
}

pub fn token_string(tok: &str) -> Option<String> {
    token_bytes(tok).and_then(|b| String::from_utf8(b).ok())
}

pub fn string_token(s: &str) -> String {
    format!("x:{}", hex_encode(s.as_bytes()))
}

pub fn fen_arg(tok: &str) -> String {
    tok.replace('_', " ")
}

pub fn fen_out(board: &Bitboard) -> String {
    Fen::from(board).fen.replace(' ', "_")
}

fn board_from(tok: &str) -> Option<Bitboard> {
    Bitboard::from_fen_string(&fen_arg(tok)).ok()
}

/// Everything the properties call "the position": placement (12 sets), side, rights, e.p., clocks, both hashes.
/// The dummy occupancy slot 0 is deliberately not part of it.
pub fn snapshot(b: &Bitboard) -> String {
    let ps = |p: &inkayaku_board::PlayerState| {
        format!(
            "{:x},{:x},{:x},{:x},{:x},{:x},{}{}",
            p.pawns(), p.knights(), p.bishops(), p.rooks(), p.queens(), p.kings(),
            if p.king_side_castle { 'k' } else { '-' },
            if p.queen_side_castle { 'q' } else { '-' }
        )
    };
    format!(
        "w[{}]b[{}]t{}e{}h{}f{}z{:x}p{:x}",
        ps(&b.white), ps(&b.black), b.turn, b.en_passant_square_shift, b.halfmove_clock, b.fullmove_clock,
        b.calculate_zobrist_hash(), b.calculate_zobrist_pawn_hash()
    )
}

fn sorted_join(mut v: Vec<String>) -> String {
    if v.is_empty() {
        return "-".to_string();
    }
    v.sort();
    v.join(",")
}

fn find_pseudo(board: &Bitboard, uci: &str) -> Option<Move> {
    board.generate_pseudo_legal_moves().into_iter().find(|m| m.to_uci_string() == uci)
}

fn err_kind(e: &MoveFromUciError) -> &'static str {
    match e {
        MoveFromUciError::MoveDoesNotExist(_) => "notexist",
        MoveFromUciError::MoveIsNotValid(_) => "notvalid",
    }
}

fn same_flag(before: &str, b: &Bitboard) -> &'static str {
    if before == snapshot(b) { "same" } else { "changed" }
}

pub fn terminal_of(board: &mut Bitboard) -> &'static str {
    if board.generate_legal_moves().is_empty() {
        if board.is_current_in_check() { "mate" } else { "stalemate" }
    } else {
        "ongoing"
    }
}

fn piece_char(board: &Bitboard, sq: usize) -> char {
    let square = Square::from_index(sq).unwrap();
    board.get_colored_piece(square).map_or('.', |p| p.fen)
}

pub fn dispatch(op: &str, args: &[&str]) -> String {
    match op {
        "legal" => {
            let Some(mut b) = board_from(args[0]) else { return "badfen".into() };
            sorted_join(b.generate_legal_moves().iter().map(Move::to_uci_string).collect())
        }
        "pseudo" => {
            // the search/perft path: pseudo-legal generation, make, is_valid, unmake
            let Some(mut b) = board_from(args[0]) else { return "badfen".into() };
            let mut out = Vec::new();
            let mut buffer = Vec::new();
            b.generate_pseudo_legal_moves_with_buffer(&mut buffer);
            for mv in buffer {
                b.make(mv);
                if b.is_valid() {
                    out.push(mv.to_uci_string());
                }
                b.unmake(mv);
            }
            sorted_join(out)
        }
        "pseudoraw" => {
            let Some(b) = board_from(args[0]) else { return "badfen".into() };
            sorted_join(b.generate_pseudo_legal_moves().iter().map(Move::to_uci_string).collect())
        }
        "nq" => {
            let Some(b) = board_from(args[0]) else { return "badfen".into() };
            sorted_join(b.generate_pseudo_legal_non_quiescent_moves().iter().map(Move::to_uci_string).collect())
        }
        "perft" => {
            let Some(mut b) = board_from(args[0]) else { return "badfen".into() };
            let d: usize = args[1].parse().unwrap();
            if d == 0 {
                return "bad-request".into();
            }
            sorted_join(b.perft(d).iter().map(|(m, c)| format!("{}:{}", m.to_uci_string(), c)).collect())
        }
        "make" => {
            let Some(mut b) = board_from(args[0]) else { return "badfen".into() };
            match b.generate_legal_moves().into_iter().find(|m| m.to_uci_string() == args[1]) {
                Some(mv) => {
                    b.make(mv);
                    fen_out(&b)
                }
                None => "ERR".into(),
            }
        }
        "legalafter" => {
            // play a line with the board's own make, then list the legal moves of the position reached
            let Some(mut b) = board_from(args[0]) else { return "badfen".into() };
            for uci in &args[1..] {
                match b.generate_legal_moves().into_iter().find(|m| m.to_uci_string() == *uci) {
                    Some(mv) => b.make(mv),
                    None => return format!("ERR {}", uci),
                }
            }
            format!("{} {}", fen_out(&b), sorted_join(b.generate_legal_moves().iter().map(Move::to_uci_string).collect()))
        }
        "succ" => {
            let Some(mut b) = board_from(args[0]) else { return "badfen".into() };
            let mut out = Vec::new();
            for mv in b.generate_legal_moves() {
                b.make(mv);
                out.push(format!("{}>{}", mv.to_uci_string(), fen_out(&b)));
                b.unmake(mv);
            }
            sorted_join(out)
        }
        "mkunmk" => {
            // every move the generator can emit: make + unmake must restore the snapshot
            let Some(mut b) = board_from(args[0]) else { return "badfen".into() };
            let before = snapshot(&b);
            let moves = b.generate_pseudo_legal_moves();
            let n = moves.len();
            for mv in moves {
                b.make(mv);
                b.unmake(mv);
                let after = snapshot(&b);
                if after != before {
                    return format!("diff {} {} {}", mv.to_uci_string(), before, after);
                }
            }
            format!("same {}", n)
        }
        "line" => {
            // make a whole line (pseudo-legal moves looked up by text), then unmake in reverse order
            let Some(mut b) = board_from(args[0]) else { return "badfen".into() };
            let before = snapshot(&b);
            let mut made = Vec::new();
            for uci in &args[1..] {
                match find_pseudo(&b, uci) {
                    Some(mv) => {
                        b.make(mv);
                        made.push(mv);
                    }
                    None => return format!("ERR {}", uci),
                }
            }
            let end = fen_out(&b);
            for mv in made.iter().rev() {
                b.unmake(*mv);
            }
            format!("{} {}", if snapshot(&b) == before { "same" } else { "diff" }, end)
        }
        "incheck" => {
            let Some(b) = board_from(args[0]) else { return "badfen".into() };
            format!(
                "{}{}{}{}",
                u8::from(b.is_in_check(&Color::WHITE)),
                u8::from(b.is_in_check(&Color::BLACK)),
                u8::from(b.is_current_in_check()),
                u8::from(b.is_valid())
            )
        }
        "terminal" => {
            let Some(mut b) = board_from(args[0]) else { return "badfen".into() };
            terminal_of(&mut b).into()
        }
        "anylegal" => {
            // the evaluator's / SAN writer's path: is_any_move_legal on the pseudo-legal buffer
            let Some(mut b) = board_from(args[0]) else { return "badfen".into() };
            let buffer = b.generate_pseudo_legal_moves();
            if b.is_any_move_legal(&buffer) { "1".into() } else { "0".into() }
        }
        "hash" => {
            let Some(b) = board_from(args[0]) else { return "badfen".into() };
            format!("{:x} {:x}", b.calculate_zobrist_hash(), b.calculate_zobrist_pawn_hash())
        }
        "xor" => {
            // incremental == recomputed for every pseudo-legal move; answer lists uci:delta:pawndelta sorted
            let Some(mut b) = board_from(args[0]) else { return "badfen".into() };
            let h0 = b.calculate_zobrist_hash();
            let p0 = b.calculate_zobrist_pawn_hash();
            let mut out = Vec::new();
            for mv in b.generate_pseudo_legal_moves() {
                let (dx, dp) = Bitboard::zobrist_xor(mv);
                b.make(mv);
                let ok = b.calculate_zobrist_hash() == h0 ^ dx && b.calculate_zobrist_pawn_hash() == p0 ^ dp;
                b.unmake(mv);
                out.push(format!("{}:{:x}:{:x}:{}", mv.to_uci_string(), dx, dp, if ok { "ok" } else { "BAD" }));
            }
            sorted_join(out)
        }
        "fen" => {
            let Some(bytes) = token_bytes(args[0]) else { return "bad-request".into() };
            let Ok(s) = String::from_utf8(bytes) else { return "bad-request".into() };
            match Bitboard::from_fen_string(&s) {
                Ok(b) => {
                    let pieces: String = (0..64).map(|i| piece_char(&b, i)).collect();
                    let rights = format!(
                        "{}{}{}{}",
                        if b.white.king_side_castle { 'K' } else { '-' },
                        if b.white.queen_side_castle { 'Q' } else { '-' },
                        if b.black.king_side_castle { 'k' } else { '-' },
                        if b.black.queen_side_castle { 'q' } else { '-' }
                    );
                    let printed = Fen::from(&b).fen;
                    format!(
                        "ok {} {} {} {} {} {} {}",
                        pieces, if b.turn == WHITE { 'w' } else { 'b' }, rights, b.en_passant_square_shift,
                        b.halfmove_clock, b.fullmove_clock, string_token(&printed)
                    )
                }
                Err(_) => "err".into(),
            }
        }
        "fenvalid" => {
            let Some(s) = token_string(args[0]) else { return "bad-request".into() };
            format!("{}", u8::from(Fen::is_valid(&s)))
        }
        "finduci" => {
            let Some(mut b) = board_from(args[0]) else { return "badfen".into() };
            let Some(s) = token_string(args[1]) else { return "bad-request".into() };
            let before = snapshot(&b);
            match b.find_uci(&s) {
                Ok(mv) => format!("ok {} {}", mv.to_uci_string(), same_flag(&before, &b)),
                Err(e) => format!("err {} {}", err_kind(&e), same_flag(&before, &b)),
            }
        }
        "finduci-all" => {
            // all 64 x 64 x {none,q,r,b,n,k} move strings: accepted ones listed, rejected ones counted
            let Some(mut b) = board_from(args[0]) else { return "badfen".into() };
            let before = snapshot(&b);
            let mut accepted = Vec::new();
            let (mut notexist, mut notvalid, mut changed) = (0u32, 0u32, 0u32);
            for src in 0..64u32 {
                for tgt in 0..64u32 {
                    for promo in ["", "q", "r", "b", "n", "k"] {
                        let s = format!("{}{}{}", inkayaku_board::square_to_string(src), inkayaku_board::square_to_string(tgt), promo);
                        match b.find_uci(&s) {
                            Ok(mv) => accepted.push(format!("{}>{}", s, mv.to_uci_string())),
                            Err(MoveFromUciError::MoveDoesNotExist(_)) => notexist += 1,
                            Err(MoveFromUciError::MoveIsNotValid(_)) => notvalid += 1,
                        }
                        if snapshot(&b) != before {
                            changed += 1;
                        }
                    }
                }
            }
            format!("{} notexist={} notvalid={} {}", sorted_join(accepted), notexist, notvalid, if changed == 0 { "same" } else { "changed" })
        }
        "leaper" => {
            let sq: usize = args[1].parse().unwrap();
            if sq >= 64 { return "bad-request".into() }
            let t = match args[0] {
                "k" => inkayaku_board::verif::king_table(),
                "n" => inkayaku_board::verif::knight_table(),
                "wp" => inkayaku_board::verif::white_pawn_table(),
                "bp" => inkayaku_board::verif::black_pawn_table(),
                _ => return "bad-request".into(),
            };
            format!("{:x}", t[sq])
        }
        "makeuci" => {
            let Some(mut b) = board_from(args[0]) else { return "badfen".into() };
            let Some(s) = token_string(args[1]) else { return "bad-request".into() };
            let before = snapshot(&b);
            match b.make_uci(&s) {
                Ok(()) => format!("ok {}", fen_out(&b)),
                Err(e) => format!("err {} {}", err_kind(&e), same_flag(&before, &b)),
            }
        }
        "makeall" => {
            let Some(mut b) = board_from(args[0]) else { return "badfen".into() };
            let mut moves = Vec::new();
            for t in &args[1..] {
                let Some(s) = token_string(t) else { return "bad-request".into() };
                moves.push(s);
            }
            let before = snapshot(&b);
            match b.make_all_uci(&moves) {
                Ok(()) => format!("ok {}", fen_out(&b)),
                Err(e) => format!("err {} {}", err_kind(&e), same_flag(&before, &b)),
            }
        }
        "ucipgn" => {
            let Some(mut b) = board_from(args[0]) else { return "badfen".into() };
            let Some(s) = token_string(args[1]) else { return "bad-request".into() };
            let before = snapshot(&b);
            match b.uci_to_pgn(&s) {
                Ok(san) => format!("ok {} {}", string_token(&san), same_flag(&before, &b)),
                Err(e) => format!("err {} {}", err_kind(&e), same_flag(&before, &b)),
            }
        }
        "sanmv" => {
            let Some(mut b) = board_from(args[0]) else { return "badfen".into() };
            let Some(s) = token_string(args[1]) else { return "bad-request".into() };
            let before = snapshot(&b);
            match b.pgn_to_bb(&s) {
                Ok(mv) => format!("ok {} {}", mv.to_uci_string(), same_flag(&before, &b)),
                Err(_) => format!("err {}", same_flag(&before, &b)),
            }
        }
        "san" => {
            // SAN of every legal move and its parse-back: uci=san=back
            let Some(mut b) = board_from(args[0]) else { return "badfen".into() };
            let before = snapshot(&b);
            let mut out = Vec::new();
            for mv in b.generate_legal_moves() {
                let uci = mv.to_uci_string();
                let san = match b.uci_to_pgn(&uci) {
                    Ok(s) => s,
                    Err(_) => "ERR".to_string(),
                };
                let back = match b.pgn_to_bb(&san) {
                    Ok(m) => m.to_uci_string(),
                    Err(_) => "ERR".to_string(),
                };
                out.push(format!("{}={}={}", uci, san, back));
            }
            format!("{} {}", sorted_join(out), same_flag(&before, &b))
        }
        "eval" => {
            let Some(mut b) = board_from(args[0]) else { return "badfen".into() };
            let any = !b.generate_legal_moves().is_empty();
            format!("{}", inkayaku_engine_core::verif::evaluate(&b, any))
        }
        "magic" => {
            let sq: usize = args[1].parse().unwrap();
            let occ = u64::from_str_radix(args[2], 16).unwrap();
            if sq >= 64 {
                return "bad-request".into();
            }
            let (att, idx, len) = if args[0] == "r" {
                (inkayaku_board::verif::rook_attacks(sq as u32, occ), inkayaku_board::verif::rook_index(sq, occ), inkayaku_board::verif::rook_parts(sq).4.len())
            } else {
                (inkayaku_board::verif::bishop_attacks(sq as u32, occ), inkayaku_board::verif::bishop_index(sq, occ), inkayaku_board::verif::bishop_parts(sq).4.len())
            };
            format!("{:x} {} {}", att, idx, len)
        }
        "table" => table_op(args),
        "reps" => reps_op(args),
        "uciparse" => uciparse_op(args),
        "ucimove" => {
            let Some(s) = token_string(args[0]) else { return "bad-request".into() };
            match inkayaku_uci::UciMove::from_str(&s) {
                Ok(m) => format!("ok {}", m),
                Err(_) => "err".into(),
            }
        }
        "pgn" => pgn_op(args),
        "pgnreplay" => pgnreplay_op(args),
        "scorefromvalue" => {
            // value fullmove turn
            let Some(b) = board_from(args[0]) else { return "badfen".into() };
            let v: i32 = args[1].parse().unwrap();
            match inkayaku_engine_core::verif::score_from_value(v, &b) {
                inkayaku_uci::Score::Mate { mate_in } => format!("mate {}", mate_in),
                inkayaku_uci::Score::Centipawn { score } => format!("cp {}", score),
                inkayaku_uci::Score::CentipawnBounded { score, .. } => format!("cpb {}", score),
            }
        }
        "search" | "session" => engine_ops::session_op(args),
        "console" => console_op(args),
        _ => "bad-request".into(),
    }
}

/// format one engine-to-GUI message with the real `ConsoleUciTx` and return the line it prints
fn console_op(args: &[&str]) -> String {
    use inkayaku_uci::console::ConsoleUciTx;
    use inkayaku_uci::{Bound, CurrentLine, Info, ProtectionMessage, Score, UciMove, UciTx};
    use std::cell::RefCell;
    let lines: RefCell<Vec<String>> = RefCell::new(Vec::new());
    let tx = ConsoleUciTx::new(|s: &str| lines.borrow_mut().push(s.to_string()), |_: &str| {}, false);
    let mv = |t: &str| UciMove::from_str(t).ok();
    let mvs = |t: &str| -> Option<Vec<UciMove>> {
        match t {
            "-" => None,
            "empty" => Some(Vec::new()),
            _ => t.split(',').map(|m| UciMove::from_str(m).ok()).collect(),
        }
    };
    let num = |t: &str| -> Option<u64> { if t == "-" { None } else { t.parse().ok() } };
    let prot = |t: &str| match t { "checking" => ProtectionMessage::CHECKING, "ok" => ProtectionMessage::OK, _ => ProtectionMessage::ERROR };
    match args[0] {
        "bestmove" => tx.best_move(if args[1] == "-" { None } else { mv(args[1]) }, if args[2] == "-" { None } else { mv(args[2]) }),
        "uciok" => tx.uci_ok(),
        "readyok" => tx.ready_ok(),
        "registration" => tx.registration(prot(args[1])),
        "copyprotection" => tx.copy_protection(prot(args[1])),
        "id" => {
            let Some(text) = token_string(args[2]) else { return "bad-request".into() };
            if args[1] == "name" { tx.id_name(&text) } else { tx.id_author(&text) }
        }
        "info" => {
            let a = &args[1..];
            if a.len() != 17 {
                return "bad-request".into();
            }
            let score = match a[6] {
                "-" => None,
                t if t.starts_with("mate") => t[4..].parse().ok().map(|n| Score::Mate { mate_in: n }),
                t if t.starts_with("cp") => {
                    let parts: Vec<&str> = t[2..].split(':').collect();
                    let v: i32 = parts[0].parse().unwrap();
                    Some(match parts.get(1) {
                        Some(&"lower") => Score::CentipawnBounded { score: v, bound: Bound::LOWER },
                        Some(&"upper") => Score::CentipawnBounded { score: v, bound: Bound::UPPER },
                        _ => Score::Centipawn { score: v },
                    })
                }
                _ => return "bad-request".into(),
            };
            let current_line = if a[15] == "-" { None } else {
                let (cpu, ms) = a[15].split_once(':').unwrap();
                Some(CurrentLine::new(cpu.parse().unwrap(), mvs(ms).unwrap_or_default()))
            };
            let string = if a[16] == "-" { None } else { token_string(a[16]) };
            let info = Info {
                depth: num(a[0]).map(|x| x as u32),
                selective_depth: num(a[1]).map(|x| x as u32),
                time: num(a[2]).map(std::time::Duration::from_millis),
                nodes: num(a[3]),
                principal_variation: mvs(a[4]),
                multi_pv: num(a[5]).map(|x| x as u32),
                score,
                current_move: if a[7] == "-" { None } else { mv(a[7]) },
                current_move_number: num(a[8]).map(|x| x as u32),
                hash_full: num(a[9]).map(|x| x as u32),
                nps: num(a[10]),
                table_hits: num(a[11]).map(|x| x as u32),
                shredder_table_hits: num(a[12]).map(|x| x as u32),
                cpu_load: num(a[13]).map(|x| x as u32),
                string,
                refutation: mvs(a[14]),
                current_line,
            };
            tx.info(&info);
        }
        _ => return "bad-request".into(),
    }
    let out = lines.borrow();
    if out.len() != 1 {
        return format!("LINES {}", out.len());
    }
    string_token(&out[0])
}

fn table_op(args: &[&str]) -> String {
    use inkayaku_engine_core::verif::TableHandle;
    let cap: usize = match args[0].parse() { Ok(c) => c, Err(_) => return "bad-request".into() };
    let mut t = TableHandle::new(cap);
    let mut out: Vec<String> = Vec::new();
    let mut lf_ok = true;
    for op in &args[1..] {
        let parts: Vec<&str> = op.split(':').collect();
        match parts.as_slice() {
            ["p", k, v] => t.put(k.parse().unwrap(), v.parse().unwrap()),
            ["g", k] => out.push(t.get(k.parse().unwrap()).map_or("-".to_string(), |v| v.to_string())),
            ["c"] => t.clear(),
            ["l"] => out.push(t.len().to_string()),
            _ => return "bad-request".into(),
        }
        // the reported fill level must be the real number of entries over the capacity
        if cap > 0 && t.load_factor() != t.len() as f32 / cap as f32 {
            lf_ok = false;
        }
    }
    out.push("|".into());
    out.push(t.len().to_string());
    out.push(t.queue_len().to_string());
    if !lf_ok {
        out.push("LOADFACTOR-MISMATCH".into());
    }
    out.join(" ")
}

fn reps_op(args: &[&str]) -> String {
    use inkayaku_engine_core::verif::ZobristHistory;
    let start: u16 = args[0].parse().unwrap();
    let hm: u16 = args[1].parse().unwrap();
    let mut h = ZobristHistory::default();
    let n = args.len() - 2;
    if start as usize >= n {
        return "bad-request".into();
    }
    for (i, v) in args[2..].iter().enumerate() {
        h.set(i as u16, v.parse().unwrap());
    }
    h.count_repetitions(start, hm).to_string()
}

fn opt_ms(d: Option<std::time::Duration>) -> String {
    d.map_or("-".to_string(), |d| d.as_millis().to_string())
}

fn opt_n(d: Option<u64>) -> String {
    d.map_or("-".to_string(), |d| d.to_string())
}

fn uciparse_op(args: &[&str]) -> String {
    use inkayaku_uci::parser::{CommandParser, ParserError};
    use inkayaku_uci::UciCommand::*;
    let Some(line) = token_string(args[0]) else { return "bad-request".into() };
    match CommandParser::new(&line).parse() {
        Ok(cmd) => match cmd {
            Uci => "ok uci".into(),
            IsReady => "ok isready".into(),
            UciNewGame => "ok ucinewgame".into(),
            Stop => "ok stop".into(),
            PonderHit => "ok ponderhit".into(),
            Quit => "ok quit".into(),
            SetDebug { debug } => format!("ok debug {}", if debug { "on" } else { "off" }),
            SetOption { name } => format!("ok setoption {}", string_token(&name)),
            SetOptionValue { name, value } => format!("ok setoptionvalue {} {}", string_token(&name), string_token(&value)),
            RegisterLater => "ok registerlater".into(),
            Register { name, code } => format!("ok register {} {}", string_token(&name), string_token(&code)),
            PositionFrom { fen, moves } => {
                let mut s = format!("ok position {} {}", string_token(&fen.fen), moves.len());
                for m in moves {
                    s.push(' ');
                    s.push_str(&m.to_string());
                }
                s
            }
            Go { go } => {
                let sm = if go.search_moves.is_empty() { "-".to_string() } else { go.search_moves.iter().map(|m| m.to_string()).collect::<Vec<_>>().join(",") };
                format!(
                    "ok go sm={} ponder={} wtime={} btime={} winc={} binc={} mtg={} depth={} nodes={} mate={} movetime={} inf={}",
                    sm, u8::from(go.ponder), opt_ms(go.white_time), opt_ms(go.black_time), opt_ms(go.white_increment), opt_ms(go.black_increment),
                    opt_n(go.moves_to_go), opt_n(go.depth), opt_n(go.nodes), opt_n(go.mate), opt_ms(go.move_time), u8::from(go.infinite)
                )
            }
        },
        Err(e) => format!("err {}", match e {
            ParserError::UnknownCommand(_) => "unknown",
            ParserError::UnexpectedEndOfCommand => "eoc",
            ParserError::UnexpectedToken { .. } => "token",
            ParserError::InvalidFen(_) => "fen",
            ParserError::InvalidInt(_) => "int",
            ParserError::DuplicatedToken(_) => "dup",
            ParserError::InvalidUciMove(_) => "move",
        }),
    }
}

/// `Read` that fragments its reads according to a cyclic schedule
struct SchedReader {
    data: Vec<u8>,
    pos: usize,
    sched: Vec<usize>,
    k: usize,
}

impl std::io::Read for SchedReader {
    fn read(&mut self, buf: &mut [u8]) -> std::io::Result<usize> {
        let remaining = self.data.len() - self.pos;
        let mut n = buf.len().min(remaining);
        if !self.sched.is_empty() {
            n = n.min(self.sched[self.k % self.sched.len()]);
        }
        self.k += 1;
        buf[..n].copy_from_slice(&self.data[self.pos..self.pos + n]);
        self.pos += n;
        Ok(n)
    }
}

fn latin1_hex(s: &str) -> String {
    let bytes: Vec<u8> = s.chars().map(|c| c as u32 as u8).collect();
    hex_encode(&bytes)
}

fn pgn_op(args: &[&str]) -> String {
    use inkayaku_pgn::reader::{PgnRawParser, PgnRawParserError};
    if args.len() < 3 {
        return "bad-request".into();
    }
    let chunk: usize = match args[0].parse() { Ok(c) if c >= 1 => c, _ => return "bad-request".into() };
    let sched: Vec<usize> = if args[1] == "-" { Vec::new() } else {
        match args[1].split(',').map(|s| s.parse::<usize>()).collect::<Result<Vec<_>, _>>() {
            Ok(v) if v.iter().all(|&x| x >= 1) => v,
            _ => return "bad-request".into(),
        }
    };
    let Some(data) = token_bytes(args[2]) else { return "bad-request".into() };
    let reader = SchedReader { data, pos: 0, sched, k: 0 };
    let parser = PgnRawParser::with_chunk_size(reader, chunk);
    let mut items = Vec::new();
    for item in parser {
        match item {
            Ok(game) => {
                let tags: BTreeMap<Vec<u8>, String> = game.tag_pairs.iter().map(|(k, v)| (k.chars().map(|c| c as u32 as u8).collect(), v.clone())).collect();
                let mut s = "G".to_string();
                for (k, v) in tags {
                    s.push_str(&format!(" t:{}={}", hex_encode(&k), latin1_hex(&v)));
                }
                for m in &game.moves {
                    match &m.annotation {
                        Some(a) => s.push_str(&format!(" m:{}/{}", latin1_hex(&m.mv), latin1_hex(a))),
                        None => s.push_str(&format!(" m:{}", latin1_hex(&m.mv))),
                    }
                }
                items.push(s);
            }
            Err(e) => {
                items.push(match e {
                    PgnRawParserError::ReadingFromClosedRead => "E:closed".to_string(),
                    PgnRawParserError::IllegalConsume { .. } => "E:consume".to_string(),
                    PgnRawParserError::IllegalSymbol { .. } => "E:symbol".to_string(),
                });
                break;
            }
        }
        if items.len() > 100_000 {
            break;
        }
    }
    if items.is_empty() { "-".into() } else { items.join(" | ") }
}

/// read the games with the streaming reader and replay their SAN moves on a board (start position, or the FEN tag)
fn pgnreplay_op(args: &[&str]) -> String {
    use inkayaku_pgn::reader::PgnRawParser;
    if args.len() < 3 {
        return "bad-request".into();
    }
    let chunk: usize = match args[0].parse() { Ok(c) if c >= 1 => c, _ => return "bad-request".into() };
    let sched: Vec<usize> = if args[1] == "-" { Vec::new() } else {
        match args[1].split(',').map(|s| s.parse::<usize>()).collect::<Result<Vec<_>, _>>() {
            Ok(v) if v.iter().all(|&x| x >= 1) => v,
            _ => return "bad-request".into(),
        }
    };
    let Some(data) = token_bytes(args[2]) else { return "bad-request".into() };
    let reader = SchedReader { data, pos: 0, sched, k: 0 };
    let mut out = Vec::new();
    for item in PgnRawParser::with_chunk_size(reader, chunk) {
        match item {
            Ok(game) => {
                let mut board = match game.tag_pairs.get("FEN") {
                    Some(f) => match Bitboard::from_fen_string(f) { Ok(b) => b, Err(_) => { out.push("badfen".to_string()); continue; } },
                    None => Bitboard::default(),
                };
                let mut ok = true;
                for m in &game.moves {
                    match board.pgn_to_bb(&m.mv) {
                        Ok(mv) => board.make(mv),
                        Err(_) => { ok = false; break; }
                    }
                }
                out.push(if ok { fen_out(&board) } else { "SANERR".to_string() });
            }
            Err(_) => { out.push("E".to_string()); break; }
        }
    }
    if out.is_empty() { "-".into() } else { out.join(" | ") }
}

/// Run one request line; a panic inside the real code is reported as `PANIC`.
pub fn run_line(line: &str) -> String {
    let toks: Vec<&str> = line.split(' ').filter(|s| !s.is_empty()).collect();
    if toks.is_empty() {
        return "bad-request".into();
    }
    let op = toks[0];
    let args = &toks[1..];
    match catch_unwind(AssertUnwindSafe(|| dispatch(op, args))) {
        Ok(s) => s,
        Err(_) => "PANIC".into(),
    }
}
