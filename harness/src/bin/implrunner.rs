//! Reads request lines from stdin, answers each on stdout (see lib.rs).
use std::io::{BufRead, BufWriter, Write};

fn main() {
    // keep panic messages of the code under test out of the way; the answer `PANIC` carries the information
    std::panic::set_hook(Box::new(|_| {}));
    let stdin = std::io::stdin();
    let stdout = std::io::stdout();
    let mut out = BufWriter::new(stdout.lock());
    for line in stdin.lock().lines() {
        let line = line.unwrap();
        let answer = inkayaku_verif_harness::run_line(line.trim_end_matches('\n'));
        writeln!(out, "{}", answer).unwrap();
    }
    out.flush().unwrap();
}
