//! Reads request lines from stdin, answers each on stdout (see lib.rs).
//!
//! Watchdog: a request that does not return within VERIF_WATCHDOG_SECS (default 120) is answered `HANG` and the process
//! exits with status 3 (the stuck thread cannot be recovered); the driver restarts the runner on the remaining lines.
//! A changed implementation that blocks for ever (a search thread waiting on an empty channel, an endless loop) thus
//! becomes an answer that is judged like a panic instead of stalling the whole check.
use std::io::{BufRead, BufWriter, Write};
use std::sync::atomic::{AtomicU64, Ordering};
use std::sync::Arc;
use std::time::{Duration, SystemTime, UNIX_EPOCH};

fn now_ms() -> u64 {
    SystemTime::now().duration_since(UNIX_EPOCH).map_or(0, |d| d.as_millis() as u64)
}

fn main() {
    // keep panic messages of the code under test out of the way; the answer `PANIC` carries the information
    std::panic::set_hook(Box::new(|_| {}));
    let limit_ms = std::env::var("VERIF_WATCHDOG_SECS").ok().and_then(|s| s.parse::<u64>().ok()).unwrap_or(120) * 1000;
    // 0 = idle, otherwise the start time of the request being processed
    let started = Arc::new(AtomicU64::new(0));
    let (ans_tx, ans_rx) = std::sync::mpsc::channel::<String>();
    let (req_tx, req_rx) = std::sync::mpsc::channel::<String>();
    // the worker runs the requests (the real code runs on this thread, as before: one request at a time)
    std::thread::Builder::new().stack_size(256 << 20).spawn(move || {
        while let Ok(line) = req_rx.recv() {
            let answer = inkayaku_verif_harness::run_line(line.trim_end_matches('\n'));
            if ans_tx.send(answer).is_err() {
                break;
            }
        }
    }).unwrap();
    let stdin = std::io::stdin();
    let stdout = std::io::stdout();
    let mut out = BufWriter::new(stdout.lock());
    for line in stdin.lock().lines() {
        let line = line.unwrap();
        started.store(now_ms(), Ordering::SeqCst);
        req_tx.send(line).unwrap();
        match ans_rx.recv_timeout(Duration::from_millis(limit_ms)) {
            Ok(answer) => writeln!(out, "{}", answer).unwrap(),
            Err(_) => {
                writeln!(out, "HANG").unwrap();
                out.flush().unwrap();
                std::process::exit(3);
            }
        }
    }
    out.flush().unwrap();
}
