//! In-process, synchronous sessions with the real search (`Search` driven on the caller's thread through the
//! `cfg(inkayaku_verif)` hooks: idle budget, poll period, virtual clock, board read-back).
//!
//! Request:  `session <cmd> ; <cmd> ; ...`   with commands
//!   `new`                         ucinewgame
//!   `pos <fen_|startpos> [uci...]` position (parsed by the real UCI parser)
//!   `go <uci go arguments>`       run one search to completion
//!   `stopgo <N> <go arguments>`   poll every N negamax nodes and have a `stop` waiting in the channel
//!   `quitgo <N> <go arguments>`   same with `quit`
//!   `midgo <N> <m,m,...> <go arguments>`  poll every N nodes with the listed messages waiting in the channel behind the go:
//!                                 `new` `stop` `quit` `ponderhit` `debugon` `debugoff` `pos=<fen_>` (any order, repeats allowed);
//!                                 messages the search did not consume are consumed by idle afterwards, as in the engine
//!   `pospv <k>`                   position = the last `pos` command extended by the first k moves of the PV reported last (a game
//!                                 that follows the engine's own line: the PV-continuation path of the next go); answers `F:<fen_>`
//!   `clock <ns per node|->`       virtual clock (elapsed = nodes * ns)
//!   `poll <N|->`                  poll period
//!   `board`                       read back the position held by the search
//!   `tt <plies>`                  transposition-table entries of all positions within <plies> legal moves of the held position
//! Answer: per command, joined by ` ; `:
//!   pos/new/clock/poll -> `.`   (`E` when the position command was rejected by the parser)
//!   go...  -> `I:<depth>:<time ms>:<nodes>:<score>:<pv>` per info message (`-` for absent parts, score `cp<v>`/`mate<n>`,
//!             pv moves joined by `,`) then `B:<bestmove|0000>:<ponder|->` per bestmove message
//!   board  -> `F:<fen_>`
//!   tt     -> `T:<path>:<draft>:<value>:<E|L|U>:<stored move value>` per entry (`T-` when none)

use std::sync::mpsc::{channel, Receiver, Sender};
use std::sync::Arc;

use inkayaku_engine_core::verif::{EngineOptions, MvvLvaMoveOrder, Search, SearchMessage, SimpleHeuristic};
use inkayaku_uci::command::CommandUciTx;
use inkayaku_uci::parser::CommandParser;
use inkayaku_uci::{Score, UciCommand, UciTxCommand};

pub struct Session {
    search: Search<CommandUciTx, SimpleHeuristic, MvvLvaMoveOrder>,
    tx: Sender<SearchMessage>,
    out: Receiver<UciTxCommand>,
}

impl Default for Session {
    fn default() -> Self {
        Self::new()
    }
}

impl Session {
    pub fn new() -> Self {
        let (out_tx, out_rx) = channel();
        let (tx, rx) = channel();
        let search = Search::new(Arc::new(CommandUciTx::new(out_tx)), rx, SimpleHeuristic, MvvLvaMoveOrder, EngineOptions::default());
        Self { search, tx, out: out_rx }
    }

    fn drain(&self) -> Vec<UciTxCommand> {
        let mut v = Vec::new();
        while let Ok(c) = self.out.try_recv() {
            v.push(c);
        }
        v
    }

    fn send_run(&mut self, msgs: Vec<SearchMessage>, handle: usize) {
        for m in msgs {
            self.tx.send(m).unwrap();
        }
        self.search.verif_run(handle);
    }

    pub fn position(&mut self, text: &str) -> bool {
        match CommandParser::new(text).parse() {
            Ok(UciCommand::PositionFrom { fen, moves }) => {
                self.send_run(vec![SearchMessage::UciPositionFrom(fen, moves)], 1);
                true
            }
            _ => false,
        }
    }

    pub fn new_game(&mut self) {
        self.send_run(vec![SearchMessage::UciUciNewGame], 1);
    }

    /// `interrupt`: None = plain go; Some((false, n)) = stop waiting in the channel, polled every n nodes;
    /// Some((true, n)) = quit waiting
    pub fn go(&mut self, text: &str, interrupt: Option<(bool, u64)>) -> Option<Vec<UciTxCommand>> {
        match CommandParser::new(text).parse() {
            Ok(UciCommand::Go { go }) => {
                let mut msgs = vec![SearchMessage::UciGo(go)];
                match interrupt {
                    Some((false, _)) => msgs.push(SearchMessage::UciStop),
                    Some((true, _)) => msgs.push(SearchMessage::UciQuit),
                    None => {}
                }
                self.send_run(msgs, 1);
                // The flag poll happens on entering a node when the counter is a positive multiple of the period,
                // so the waiting message was consumed during the search iff more than `n` nodes were entered.
                // Otherwise it is still in the channel and idle consumes it next, as in the engine.
                if let Some((_, n)) = interrupt {
                    if self.search.verif_negamax_nodes() <= n {
                        self.search.verif_run(1);
                    }
                }
                Some(self.drain())
            }
            _ => None,
        }
    }

    /// `go` with arbitrary messages waiting in the channel behind it; polled every `n` nodes.  Returns None when the go
    /// line or a message does not parse.
    pub fn go_with_pending(&mut self, text: &str, pending: &[&str], n: u64) -> Option<Vec<UciTxCommand>> {
        let go = match CommandParser::new(text).parse() {
            Ok(UciCommand::Go { go }) => go,
            _ => return None,
        };
        let mut msgs = vec![SearchMessage::UciGo(go)];
        for p in pending {
            msgs.push(match *p {
                "new" => SearchMessage::UciUciNewGame,
                "stop" => SearchMessage::UciStop,
                "quit" => SearchMessage::UciQuit,
                "ponderhit" => SearchMessage::UciPonderHit,
                "debugon" => SearchMessage::UciDebug(true),
                "debugoff" => SearchMessage::UciDebug(false),
                other => {
                    let fen = other.strip_prefix("pos=")?;
                    match CommandParser::new(&format!("position fen {}", fen.replace('_', " "))).parse() {
                        Ok(UciCommand::PositionFrom { fen, moves }) => SearchMessage::UciPositionFrom(fen, moves),
                        _ => return None,
                    }
                }
            });
        }
        let k = msgs.len() - 1;
        self.send_run(msgs, 1);
        // consumed during the search iff a poll happened, i.e. more than `n` nodes were entered; otherwise idle gets them
        if self.search.verif_negamax_nodes() <= n && k > 0 {
            self.search.verif_run(k);
        }
        Some(self.drain())
    }

    pub fn board_fen(&self) -> String {
        self.search.verif_board_fen()
    }

    pub fn board_snapshot(&self) -> String {
        self.search.verif_board_snapshot()
    }

    pub fn set_poll(&mut self, p: Option<u64>) {
        self.search.verif_set_poll_period(p);
    }

    pub fn set_clock(&mut self, p: Option<u64>) {
        self.search.verif_set_virtual_clock(p);
    }

    pub fn nodes(&self) -> u64 {
        self.search.verif_negamax_nodes()
    }

    /// Every transposition-table entry stored for a position reachable from the held position by at most `max_ply` legal
    /// moves: `T:<uci path|->:<draft>:<value>:<E|L|U>:<value of the stored move>`
    pub fn tt_scan(&self, max_ply: usize) -> String {
        let mut out = Vec::new();
        if let Ok(mut board) = inkayaku_board::Bitboard::from_fen_string(&self.search.verif_board_fen()) {
            let mut path = Vec::new();
            self.tt_walk(&mut board, max_ply, &mut path, &mut out);
        }
        if out.is_empty() { "T-".into() } else { out.join(" ") }
    }

    fn tt_walk(&self, board: &mut inkayaku_board::Bitboard, left: usize, path: &mut Vec<String>, out: &mut Vec<String>) {
        if let Some((draft, value, kind, mv_value)) = self.search.verif_tt_entry(board.calculate_zobrist_hash()) {
            out.push(format!(
                "T:{}:{}:{}:{}:{}",
                if path.is_empty() { "-".to_string() } else { path.join(",") },
                draft, value, ["E", "L", "U"][kind as usize], mv_value
            ));
        }
        if left == 0 {
            return;
        }
        for mv in board.generate_legal_moves() {
            board.make(mv);
            path.push(mv.to_uci_string());
            self.tt_walk(board, left - 1, path, out);
            path.pop();
            board.unmake(mv);
        }
    }
}

pub fn render_out(cmds: &[UciTxCommand]) -> String {
    let mut parts = Vec::new();
    for c in cmds {
        match c {
            UciTxCommand::Info { info } => {
                let depth = info.depth.map_or("-".to_string(), |d| d.to_string());
                let time = info.time.map_or("-".to_string(), |d| d.as_millis().to_string());
                let nodes = info.nodes.map_or("-".to_string(), |d| d.to_string());
                let score = match info.score {
                    None => "-".to_string(),
                    Some(Score::Centipawn { score }) => format!("cp{}", score),
                    Some(Score::CentipawnBounded { score, .. }) => format!("cpb{}", score),
                    Some(Score::Mate { mate_in }) => format!("mate{}", mate_in),
                };
                let pv = match &info.principal_variation {
                    None => "-".to_string(),
                    Some(v) if v.is_empty() => "-".to_string(),
                    Some(v) => v.iter().map(|m| m.to_string()).collect::<Vec<_>>().join(","),
                };
                parts.push(format!("I:{}:{}:{}:{}:{}", depth, time, nodes, score, pv));
            }
            UciTxCommand::BestMove { best_move, ponder_move } => {
                parts.push(format!(
                    "B:{}:{}",
                    best_move.as_ref().map_or("0000".to_string(), |m| m.to_string()),
                    ponder_move.as_ref().map_or("-".to_string(), |m| m.to_string())
                ));
            }
            UciTxCommand::Debug { .. } => {}
            other => parts.push(format!("O:{:?}", other).replace(' ', "")),
        }
    }
    if parts.is_empty() { "-".into() } else { parts.join(" ") }
}

pub fn session_op(args: &[&str]) -> String {
    let mut s = Session::new();
    let mut answers: Vec<String> = Vec::new();
    let mut cur_pos: Vec<String> = vec!["startpos".to_string()];
    let mut last_pv: Vec<String> = Vec::new();
    let position_text = |toks: &[String]| -> String {
        let mut t = if toks[0] == "startpos" { "position startpos".to_string() } else { format!("position fen {}", toks[0].replace('_', " ")) };
        if toks.len() > 1 {
            t.push_str(" moves ");
            t.push_str(&toks[1..].join(" "));
        }
        t
    };
    let pv_of = |rendered: &str| -> Vec<String> {
        rendered.split(' ').filter(|t| t.starts_with("I:")).filter_map(|t| {
            let f: Vec<&str> = t.split(':').collect();
            if f.len() >= 6 && f[5] != "-" { Some(f[5].split(',').map(|m| m.to_string()).collect::<Vec<_>>()) } else { None }
        }).last().unwrap_or_default()
    };
    for cmd in args.split(|t| *t == ";") {
        if cmd.is_empty() {
            continue;
        }
        let opt_num = |t: &str| if t == "-" { None } else { t.parse::<u64>().ok() };
        match cmd[0] {
            "new" => {
                s.new_game();
                answers.push(".".into());
            }
            "pos" => {
                let text = if cmd[1] == "startpos" {
                    let mut t = "position startpos".to_string();
                    if cmd.len() > 2 {
                        t.push_str(" moves ");
                        t.push_str(&cmd[2..].join(" "));
                    }
                    t
                } else {
                    let mut t = format!("position fen {}", cmd[1].replace('_', " "));
                    if cmd.len() > 2 {
                        t.push_str(" moves ");
                        t.push_str(&cmd[2..].join(" "));
                    }
                    t
                };
                let ok = s.position(&text);
                if ok {
                    cur_pos = cmd[1..].iter().map(|t| t.to_string()).collect();
                }
                answers.push(if ok { ".".into() } else { "E".into() });
            }
            "pospv" => {
                let k = cmd.get(1).and_then(|t| t.parse::<usize>().ok()).unwrap_or(0).min(last_pv.len());
                let mut toks = cur_pos.clone();
                toks.extend(last_pv[..k].iter().cloned());
                if s.position(&position_text(&toks)) {
                    cur_pos = toks;
                }
                answers.push(format!("F:{}", s.board_fen().replace(' ', "_")));
            }
            "go" => {
                let text = format!("go {}", cmd[1..].join(" "));
                let r = s.go(&text, None).map_or("E".into(), |o| render_out(&o));
                last_pv = pv_of(&r);
                answers.push(r);
            }
            "stopgo" | "quitgo" => {
                let n = opt_num(cmd[1]).unwrap_or(100_000);
                s.set_poll(Some(n));
                let text = format!("go {}", cmd[2..].join(" "));
                answers.push(s.go(&text, Some((cmd[0] == "quitgo", n))).map_or("E".into(), |o| render_out(&o)));
                s.set_poll(None);
            }
            "midgo" if cmd.len() >= 3 => {
                let n = opt_num(cmd[1]).unwrap_or(100_000);
                s.set_poll(Some(n));
                let pend: Vec<&str> = cmd[2].split(',').filter(|t| !t.is_empty() && *t != "-").collect();
                let text = format!("go {}", cmd[3..].join(" "));
                answers.push(s.go_with_pending(&text, &pend, n).map_or("E".into(), |o| render_out(&o)));
                s.set_poll(None);
            }
            "clock" => {
                s.set_clock(opt_num(cmd[1]));
                answers.push(".".into());
            }
            "poll" => {
                s.set_poll(opt_num(cmd[1]));
                answers.push(".".into());
            }
            "board" => answers.push(format!("F:{}", s.board_fen().replace(' ', "_"))),
            "tt" => answers.push(s.tt_scan(cmd.get(1).and_then(|t| t.parse::<usize>().ok()).unwrap_or(0))),
            _ => answers.push("bad-request".into()),
        }
    }
    answers.join(" ; ")
}
